fn main() {
    // export our `getrandom` so that std's weak lookup of it resolves to the harness (DESIGN.md §3.1)
    println!("cargo:rustc-link-arg-bins=-rdynamic");
    println!("cargo:rustc-check-cfg=cfg(y_crdt_y_crdt_verif)");
}
