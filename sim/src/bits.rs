//! small growable bit set over update uids

#[derive(Clone, Debug, Default, PartialEq, Eq, Hash)]
pub struct BitSet {
    w: Vec<u64>,
}

impl BitSet {
    pub fn new() -> Self {
        BitSet { w: Vec::new() }
    }
    fn trim(&mut self) {
        while let Some(&0) = self.w.last() {
            self.w.pop();
        }
    }
    pub fn insert(&mut self, i: usize) {
        let k = i / 64;
        if self.w.len() <= k {
            self.w.resize(k + 1, 0);
        }
        self.w[k] |= 1u64 << (i % 64);
    }
    pub fn remove(&mut self, i: usize) {
        let k = i / 64;
        if k < self.w.len() {
            self.w[k] &= !(1u64 << (i % 64));
            self.trim();
        }
    }
    pub fn contains(&self, i: usize) -> bool {
        let k = i / 64;
        k < self.w.len() && (self.w[k] >> (i % 64)) & 1 == 1
    }
    pub fn union_with(&mut self, o: &BitSet) -> bool {
        let mut changed = false;
        if self.w.len() < o.w.len() {
            self.w.resize(o.w.len(), 0);
        }
        for (i, x) in o.w.iter().enumerate() {
            let n = self.w[i] | x;
            if n != self.w[i] {
                changed = true;
                self.w[i] = n;
            }
        }
        changed
    }
    pub fn is_subset(&self, o: &BitSet) -> bool {
        for (i, x) in self.w.iter().enumerate() {
            let y = o.w.get(i).copied().unwrap_or(0);
            if x & !y != 0 {
                return false;
            }
        }
        true
    }
    pub fn is_empty(&self) -> bool {
        self.w.iter().all(|x| *x == 0)
    }
    pub fn len(&self) -> usize {
        self.w.iter().map(|x| x.count_ones() as usize).sum()
    }
    pub fn iter(&self) -> impl Iterator<Item = usize> + '_ {
        self.w.iter().enumerate().flat_map(|(k, x)| {
            let x = *x;
            (0..64).filter(move |b| (x >> b) & 1 == 1).map(move |b| k * 64 + b)
        })
    }
    pub fn full(n: usize) -> BitSet {
        let mut b = BitSet::new();
        for i in 0..n {
            b.insert(i);
        }
        b
    }
    pub fn key(&self) -> Vec<u64> {
        let mut v = self.w.clone();
        while let Some(&0) = v.last() {
            v.pop();
        }
        v
    }
    pub fn to_vec(&self) -> Vec<usize> {
        self.iter().collect()
    }
}
