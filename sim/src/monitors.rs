//! Oracle layer: invariants evaluated while a run proceeds and at quiescence (DESIGN.md §5).
//! Each profile arms only its own oracles.

use crate::bits::BitSet;
use crate::ops::Op;
use crate::world::*;
use std::collections::HashSet;
use std::rc::Rc;
use yrs::updates::decoder::Decode;
use yrs::updates::encoder::Encode;
use yrs::{Doc, IdSet, ReadTxn, StateVector, Transact, Update};

pub enum TxnKind {
    Local,
    Remote(Msg, Enc),
    Gc,
    Undo,
}

#[derive(Default)]
pub struct Pre {
    pub dump: Option<String>,
    pub sv: Option<Vec<(u64, u32)>>,
    pub iset: Option<IdSet>,
    pub dset: Option<IdSet>,
    pub missing: bool,
}

pub struct LogRec {
    pub uid: usize,
    /// the replica had a stash when the record was written
    pub missing: bool,
    pub v1: Vec<u8>,
    pub dump_after: String,
    pub lo: BitSet,
    pub hi: BitSet,
}

/// per-node shadow state of the armed oracles
#[derive(Default)]
pub struct Shadow {
    /// C07: passive followers fed by the v1 stream, the v2 stream, and both alternately
    pub followers: Vec<Doc>,
    pub alt: bool,
    /// C07: durable log of emitted v1 payloads
    pub durable: Vec<LogRec>,
    pub session: u32,
    /// C15: twin with the opposite GC setting fed the same payload sequence
    pub twin: Option<Doc>,
    /// C15: two passive replicas (GC on / GC off) that both clean up formatting by themselves and
    /// receive the same payload sequence as the node
    pub pair: Option<(Doc, Doc)>,
    /// C06: messages already applied by this node
    pub delivered: HashSet<MsgId>,
}

pub struct Monitors {
    pub armed: Vec<String>,
    /// number of `format` operations issued (bounds the quiescence rounds, DESIGN.md §2.2)
    pub format_ops: u32,
    pub shadow: Vec<Shadow>,
    /// C08: every payload that ever existed in the run, with its ledger coverage
    pub pool: Vec<(Rc<Payload>, BitSet, BitSet)>,
    pub sp: crate::special::SpecialState,
    pub anchors: crate::anchors::AnchorState,
    pub events: crate::eventsmon::EventsState,
    pub undo: Option<crate::undomon::UndoState>,
    pub sticky: crate::stickymon::StickyState,
}

impl Monitors {
    pub fn new(cfg: &RunCfg, nodes: &[Node]) -> Monitors {
        let armed: Vec<String> = vec![cfg.profile.clone()];
        let mut shadow: Vec<Shadow> = Vec::new();
        for (i, n) in nodes.iter().enumerate() {
            let mut s = Shadow::default();
            if cfg.profile == "log" {
                // follower GC drawn independently of the leader (deterministically from the ids)
                for k in 0..3u64 {
                    let gc = (n.cfg.client_id + k + i as u64) % 2 == 0;
                    s.followers.push(passive_doc(gc, n.cfg.utf16));
                }
            }
            if cfg.profile == "gc" {
                s.twin = Some(make_doc(&NodeCfg {
                    client_id: n.cfg.client_id + 100_000,
                    skip_gc: !n.cfg.skip_gc,
                    utf16: n.cfg.utf16,
                    // the twin never cleans up by itself: it is handed the node's own clean-up
                    // deletions (they travel in the node's update events)
                    cleanup_fmt: false,
                }));
                let mk = |k: u64, skip_gc: bool| {
                    make_doc(&NodeCfg { client_id: n.cfg.client_id + 200_000 + k, skip_gc, utf16: n.cfg.utf16, cleanup_fmt: true })
                };
                s.pair = Some((mk(0, false), mk(1, true)));
            }
            shadow.push(s);
        }
        Monitors {
            armed,
            format_ops: 0,
            shadow,
            pool: Vec::new(),
            sp: crate::special::SpecialState::new(cfg, nodes),
            anchors: Default::default(),
            events: Default::default(),
            undo: None,
            sticky: Default::default(),
        }
    }
}

pub fn integrated_ids(doc: &Doc) -> IdSet {
    let bytes = doc.transact().encode_diff_v1(&StateVector::default());
    match Update::decode_v1(&bytes) {
        Ok(u) => u.insertions(true),
        Err(_) => IdSet::default(),
    }
}

pub fn pre_txn(w: &mut World, n: usize) -> Pre {
    let mut p = Pre::default();
    let prof = w.cfg.profile.as_str();
    match prof {
        "svsync" | "gc" | "snap" => {
            p.dump = Some(doc_dump(&w.nodes[n].doc));
            p.sv = Some(doc_sv(&w.nodes[n].doc));
        }
        "log" => {
            p.dump = Some(doc_dump(&w.nodes[n].doc));
            p.iset = Some(integrated_ids(&w.nodes[n].doc));
            p.dset = Some(w.nodes[n].doc.transact().snapshot().delete_set);
        }
        _ => {}
    }
    p.missing = has_missing(&w.nodes[n].doc);
    crate::special::pre_txn(w, n, &mut p);
    p
}

pub fn post_txn(w: &mut World, n: usize, kind: TxnKind, uid: Option<usize>, pre: Pre, ops: &[Op]) -> VResult {
    for op in ops {
        if matches!(op, Op::TFormat { .. }) {
            w.mon.format_ops += 1;
        }
        if let Op::TInsert { attrs: Some(_), .. } | Op::TEmbed { attrs: Some(_), .. } = op {
            w.mon.format_ops += 1;
        }
    }
    let missing = has_missing(&w.nodes[n].doc);
    if missing {
        w.stats.pending_seen += 1;
    }
    if let Some(u) = uid {
        if w.cfg.profile == "relay" {
            let p = w.uids[u].payload.clone();
            let (lo, hi) = (w.uids[u].carry_lo.clone(), w.uids[u].carry_hi.clone());
            w.mon.pool.push((p, lo, hi));
        }
    }
    let prof = w.cfg.profile.clone();
    match prof.as_str() {
        "sec" | "gap" | "relay" => check_closed(w, n, missing)?,
        "reads" => check_reads(w, n)?,
        "svsync" => check_svsync(w, n, &kind, &pre, missing)?,
        "log" => check_log(w, n, &kind, uid, &pre)?,
        "gc" => check_gc(w, n, &kind, uid, &pre)?,
        _ => {}
    }
    crate::special::post_txn(w, n, &kind, uid, &pre, ops)?;
    // SV bookkeeping for the monotonicity monitor
    w.nodes[n].last_sv = doc_sv(&w.nodes[n].doc);
    Ok(())
}

/// same set => same state, reported under the given profile's oracle id
pub fn check_closed_as(w: &mut World, n: usize, _prof: &str) -> VResult {
    let missing = has_missing(&w.nodes[n].doc);
    check_closed(w, n, missing)
}

pub fn check_closed(w: &mut World, n: usize, missing: bool) -> VResult {
    let prof = w.cfg.profile.clone();
    if !w.exact(n) {
        return Ok(());
    }
    let cov = w.nodes[n].lo.clone();
    if !w.closed(&cov) {
        return Ok(());
    }
    w.stats.closed_checks += 1;
    w.stats.oracle_evals += 1;
    if prof == "gap" {
        check_gap_closed(w, n, &cov, missing)?;
    }
    let r = w.reference(&cov)?;
    let d = doc_dump(&w.nodes[n].doc);
    if d != r.dump {
        return Err(viol(
            &format!("{}.reference", prof),
            format!(
                "node {} holds the causally closed update set {:?} but differs from the replica that applied the same set in emission order\n  node: {}\n  ref : {}",
                n,
                cov.to_vec(),
                d,
                r.dump
            ),
        ));
    }
    // what is deleted is a function of the update set as well: an element that arrives in a
    // removed container is removed on arrival, on every replica (visible through snapshots,
    // encoded states and handles kept by the application)
    let ds = crate::world::doc_ds(&w.nodes[n].doc);
    if ds != r.ds {
        return Err(viol(
            &format!("{}.reference-deleted", prof),
            format!(
                "node {} holds the causally closed update set {:?} and shows the same content as the replica that applied the same set in emission order, but not the same elements are deleted\n  node: {:?}\n  ref : {:?}",
                n,
                cov.to_vec(),
                ds,
                r.ds
            ),
        ));
    }
    Ok(())
}

fn check_gap_closed(w: &mut World, n: usize, cov: &BitSet, missing: bool) -> VResult {
    if missing {
        return Err(viol(
            "gap.closed-but-pending",
            format!(
                "node {} has been delivered the causally closed update set {:?} but still reports missing updates",
                n,
                cov.to_vec()
            ),
        ));
    }
    let mut join: Vec<(u64, u32)> = Vec::new();
    for u in cov.iter() {
        sv_join(&mut join, &w.uids[u].after_sv);
    }
    let sv = doc_sv(&w.nodes[n].doc);
    if sv != join {
        return Err(viol(
            "gap.sv",
            format!(
                "node {} holds closed set {:?}: state vector {:?} != join of the senders' state vectors {:?}",
                n,
                cov.to_vec(),
                sv,
                join
            ),
        ));
    }
    Ok(())
}

fn check_reads(w: &mut World, n: usize) -> VResult {
    let doc = w.nodes[n].doc.clone();
    let txn = doc.transact();
    w.stats.oracle_evals += 1;
    match crate::reads::check_reads(&txn, doc.offset_kind()) {
        Ok(k) => {
            w.stats.closed_checks += k as u64;
            Ok(())
        }
        Err(e) => Err(viol("reads.disagree", format!("node {}: {}", n, e))),
    }
}

fn check_svsync(w: &mut World, n: usize, kind: &TxnKind, pre: &Pre, missing: bool) -> VResult {
    w.stats.oracle_evals += 1;
    let sv = doc_sv(&w.nodes[n].doc);
    if !sv_ge(&sv, &w.nodes[n].last_sv) {
        return Err(viol(
            "svsync.monotone",
            format!("node {}: state vector went from {:?} to {:?}", n, w.nodes[n].last_sv, sv),
        ));
    }
    if let TxnKind::Remote(msg, _) = kind {
        let dup = !w.mon.shadow[n].delivered.insert(msg.id);
        if dup && !pre.missing {
            // "unchanged by re-applying known updates": a payload is known once its blocks are
            // integrated. While the replica holds a stash, the blocks of an earlier delivery may
            // still be in it (the stash is one merged update with one `missing` vector, so blocks
            // whose own dependencies have arrived stay stashed while another stashed block still
            // waits), and applying the payload again integrates them - a change of the state
            // vector that the statement does not exclude. Evaluated for stash-free replicas only.
            let d = doc_dump(&w.nodes[n].doc);
            if Some(&sv) != pre.sv.as_ref() {
                return Err(viol(
                    "svsync.dup",
                    format!(
                        "node {}: re-applying an already applied payload changed the replica\n  before: {} {:?}\n  after : {} {:?}",
                        n,
                        pre.dump.clone().unwrap_or_default(),
                        pre.sv,
                        d,
                        sv
                    ),
                ));
            }
        }
        if let Some(sva) = &msg.sv_at_encode {
            if !sv_ge(&sv, sva) {
                // known finding F19 is identified by the receiver holding a stash afterwards
                return Err(viol(
                    if missing { "svsync.dominance-stashed" } else { "svsync.dominance" },
                    format!(
                        "node {} applied what node {} encoded against its state vector, but its state vector {:?} does not dominate the sender's {:?}",
                        n, msg.from, sv, sva
                    ),
                ));
            }
        }
    }
    // content: same set => same state (sync payloads included)
    if w.exact(n) {
        let cov = w.nodes[n].lo.clone();
        if w.closed(&cov) {
            w.stats.closed_checks += 1;
            if missing {
                return Err(viol(
                    "svsync.pending",
                    format!("node {} holds closed set {:?} after sync but reports missing updates", n, cov.to_vec()),
                ));
            }
            let r = w.reference(&cov)?;
            let d = doc_dump(&w.nodes[n].doc);
            if d != r.dump {
                return Err(viol(
                    "svsync.content",
                    format!(
                        "node {} holds closed set {:?} (by updates and sync answers) but differs from the reference\n  node: {}\n  ref : {}",
                        n,
                        cov.to_vec(),
                        d,
                        r.dump
                    ),
                ));
            }
        }
    }
    Ok(())
}

fn check_log(w: &mut World, n: usize, _kind: &TxnKind, uid: Option<usize>, pre: &Pre) -> VResult {
    w.stats.oracle_evals += 1;
    let doc = w.nodes[n].doc.clone();
    let dump = doc_dump(&doc);
    let iset = integrated_ids(&doc);
    let dset = doc.transact().snapshot().delete_set;
    let changed = Some(&dump) != pre.dump.as_ref() || Some(&iset) != pre.iset.as_ref() || Some(&dset) != pre.dset.as_ref();
    match (changed, uid) {
        (true, None) => {
            return Err(viol(
                "log.count",
                format!(
                    "a transaction on node {} changed the document (content, integrated ids or delete set) but no update event was emitted\n  before: {}\n  after : {}",
                    n,
                    pre.dump.clone().unwrap_or_default(),
                    dump
                ),
            ))
        }
        (false, Some(_)) => {
            return Err(viol(
                "log.count",
                format!(
                    "a transaction on node {} changed nothing (content, integrated ids, delete set all equal) but emitted an update event",
                    n
                ),
            ))
        }
        _ => {}
    }
    if let Some(u) = uid {
        let p = w.uids[u].payload.clone();
        let alt = w.mon.shadow[n].alt;
        w.mon.shadow[n].alt = !alt;
        let encs = [Enc::V1, Enc::V2, if alt { Enc::V1 } else { Enc::V2 }];
        for (k, enc) in encs.iter().enumerate() {
            let f = w.mon.shadow[n].followers[k].clone();
            if let Err(e) = apply_payload(&f, &p, *enc) {
                return Err(viol(
                    "log.follower",
                    format!("follower {} of node {} cannot apply emitted update u{} ({:?}): {}", k, n, u, enc, e),
                ));
            }
        }
        let lo = w.nodes[n].lo.clone();
        let hi = w.nodes[n].hi.clone();
        w.mon.shadow[n].durable.push(LogRec {
            uid: u,
            missing: has_missing(&doc),
            v1: p.v1.clone(),
            dump_after: dump.clone(),
            lo,
            hi,
        });
    }
    for k in 0..3 {
        let f = w.mon.shadow[n].followers[k].clone();
        let fd = doc_dump(&f);
        if fd != dump {
            return Err(viol(
                "log.follower",
                format!(
                    "passive follower {} (fed only by the {} update events of node {}) differs from it after this transaction\n  leader  : {}\n  follower: {}",
                    k,
                    ["v1", "v2", "alternating v1/v2"][k],
                    n,
                    dump,
                    fd
                ),
            ));
        }
        // "equal to the emitting document": not only what is visible. A follower whose state
        // vector lags or that has not been told about a deletion answers the next sync request
        // differently than the leader would.
        // (not after a crash: the recovered leader has lost stashed and un-exposed data that its
        // new followers are only told about again as the run goes on)
        if w.stats.f_crash == 0 && !has_missing(&doc) && has_missing(&f) {
            return Err(viol(
                "log.follower-state",
                format!(
                    "passive follower {} (fed only by the {} update events of node {}) reports missing updates although the leader does not: the events do not carry what their own successors depend on",
                    k,
                    ["v1", "v2", "alternating v1/v2"][k],
                    n
                ),
            ));
        }
        if w.stats.f_crash == 0 && !has_missing(&doc) && !has_missing(&f) {
            let (ls, fs) = (doc_sv(&doc), doc_sv(&f));
            let (ld, fdel) = (crate::world::doc_ds(&doc), crate::world::doc_ds(&f));
            if ls != fs || ld != fdel {
                return Err(viol(
                    "log.follower-state",
                    format!(
                        "passive follower {} (fed only by the {} update events of node {}) shows the same content but not the same state\n  leader  : sv {:?} deleted {:?}\n  follower: sv {:?} deleted {:?}",
                        k,
                        ["v1", "v2", "alternating v1/v2"][k],
                        n,
                        ls,
                        ld,
                        fs,
                        fdel
                    ),
                ));
            }
        }
    }
    Ok(())
}

fn check_gc(w: &mut World, n: usize, kind: &TxnKind, uid: Option<usize>, pre: &Pre) -> VResult {
    w.stats.oracle_evals += 1;
    let twin = w.mon.shadow[n].twin.clone().unwrap();
    // the passive pair: same payloads, same order, only the GC setting differs
    if let Some((pa, pb)) = w.mon.shadow[n].pair.clone() {
        let mut feed: Vec<(Rc<crate::world::Payload>, Enc)> = Vec::new();
        if let TxnKind::Remote(msg, enc) = kind {
            feed.push((msg.payload.clone(), *enc));
        }
        if !matches!(kind, TxnKind::Gc) {
            if let Some(u) = uid {
                feed.push((w.uids[u].payload.clone(), Enc::V1));
            }
        }
        for (p, enc) in feed.iter() {
            for t in [&pa, &pb] {
                if let Err(e) = apply_payload(t, p, *enc) {
                    return Err(viol("gc.pair", format!("passive replica next to node {} cannot apply a payload the node applied: {}", n, e)));
                }
            }
        }
        if !feed.is_empty() && !has_missing(&pa) && !has_missing(&pb) {
            let (a, b) = (doc_dump(&pa), doc_dump(&pb));
            if a != b {
                return Err(viol(
                    "gc.pair",
                    format!(
                        "two passive replicas (formatting clean-up on) received the same payloads in the same order as node {} and differ only in their GC setting, but show different content\n  gc on : {}\n  gc off: {}",
                        n, a, b
                    ),
                ));
            }
        }
    }
    match kind {
        TxnKind::Local | TxnKind::Undo => {
            if let Some(u) = uid {
                let p = w.uids[u].payload.clone();
                if let Err(e) = apply_payload(&twin, &p, Enc::V1) {
                    return Err(viol("gc.twin", format!("twin of node {} cannot apply its update: {}", n, e)));
                }
            }
        }
        TxnKind::Remote(msg, enc) => {
            if let Err(e) = apply_payload(&twin, &msg.payload, *enc) {
                return Err(viol("gc.twin", format!("twin of node {} cannot apply a payload the node applied: {}", n, e)));
            }
            if let Some(u) = uid {
                let p = w.uids[u].payload.clone();
                if let Err(e) = apply_payload(&twin, &p, Enc::V1) {
                    return Err(viol("gc.twin", format!("twin of node {} cannot apply the node's own update event: {}", n, e)));
                }
            }
        }
        TxnKind::Gc => {
            let d = doc_dump(&w.nodes[n].doc);
            if Some(&d) != pre.dump.as_ref() {
                return Err(viol(
                    "gc.force",
                    format!(
                        "forced GC changed visible content of node {}\n  before: {}\n  after : {}",
                        n,
                        pre.dump.clone().unwrap_or_default(),
                        d
                    ),
                ));
            }
        }
    }
    // whatever the undo manager's stacks say was deleted must still have its content
    if n == 0 && matches!(kind, TxnKind::Gc | TxnKind::Undo | TxnKind::Local) {
        if let Some((um, _)) = w.mon.sticky.um.as_ref() {
            let full = {
                let t = w.nodes[0].doc.transact();
                t.encode_state_as_update_v1(&StateVector::default())
            };
            if let Ok(u) = Update::decode_v1(&full) {
                let blocks = yrs::verif::update_blocks(&u);
                let mut needed: Vec<(u64, u32, u32)> = Vec::new();
                for st in um.undo_stack().iter().chain(um.redo_stack().iter()) {
                    for (client, ranges) in st.deletions().iter() {
                        for r in ranges.iter() {
                            needed.push((client.get(), r.start, r.end));
                        }
                    }
                }
                if !needed.is_empty() {
                    w.probe("gc.undo-needed-content-checked");
                }
                for (c, s, e) in needed {
                    for (id, len, k) in blocks.iter() {
                        if id.client.get() == c && id.clock < e && s < id.clock + len && (*k == "gc" || *k == "deleted") {
                            return Err(viol(
                                "gc.undo-content-collected",
                                format!(
                                    "node 0: the undo manager's stacks refer to the deleted range {}#{}..{}, but the block {}#{}+{} in it has been garbage collected ({}): undo/redo can no longer restore it",
                                    c, s, e, c, id.clock, len, k
                                ),
                            ));
                        }
                    }
                }
            }
        }
    }
    if !has_missing(&w.nodes[n].doc) && !has_missing(&twin) {
        let a = doc_dump(&w.nodes[n].doc);
        let b = doc_dump(&twin);
        if a != b {
            return Err(viol(
                "gc.twin",
                format!(
                    "node {} (skip_gc={}) and its twin with the opposite GC setting received the same updates but differ\n  node: {}\n  twin: {}",
                    n, w.nodes[n].cfg.skip_gc, a, b
                ),
            ));
        }
    }
    Ok(())
}

pub fn on_sync_answer(_w: &mut World, _a: usize, _b: usize, _sv: &StateVector, _full: bool) -> VResult {
    Ok(())
}

/// weight of profile-specific events in the generator policy
pub fn special_weight(w: &World) -> u32 {
    w.cfg.w_special
}

pub fn draw_special(w: &mut World) -> Option<Ev> {
    crate::special::draw(w)
}

/// origin of a generated local transaction
pub fn draw_origin(w: &mut World, n: usize) -> Option<String> {
    crate::special::draw_origin(w, n)
}

pub fn exec_special(w: &mut World, n: usize, k: &str, a: &[u64], s: &[String]) -> VResult {
    w.stats.special += 1;
    crate::special::exec(w, n, k, a, s)
}

pub fn at_quiescence(w: &mut World) -> VResult {
    let full = w.universe();
    for (i, nd) in w.nodes.iter().enumerate() {
        if nd.lo != full {
            return Err(viol(
                "harness.coverage",
                format!("node {} not fully covered at quiescence: {:?}", i, nd.lo.to_vec()),
            ));
        }
    }
    let prof = w.cfg.profile.clone();
    w.stats.oracle_evals += 1;
    for i in 0..w.nodes.len() {
        if has_missing(&w.nodes[i].doc) {
            return Err(viol(
                &format!("{}.pending-at-quiescence", prof),
                format!(
                    "node {} has received every update (directly and by full-state sync) but still reports missing updates",
                    i
                ),
            ));
        }
    }
    let dumps: Vec<String> = w.nodes.iter().map(|x| doc_dump(&x.doc)).collect();
    for i in 1..dumps.len() {
        if dumps[i] != dumps[0] {
            return Err(viol(
                &format!("{}.diverged", prof),
                format!(
                    "replicas 0 and {} received the same set of updates but differ\n  0: {}\n  {}: {}",
                    i, dumps[0], i, dumps[i]
                ),
            ));
        }
    }
    let r = w.reference(&full)?;
    if dumps[0] != r.dump {
        return Err(viol(
            &format!("{}.reference", prof),
            format!(
                "all replicas agree but differ from the emission-order reference\n  node: {}\n  ref : {}",
                dumps[0], r.dump
            ),
        ));
    }
    let svs: Vec<Vec<(u64, u32)>> = w.nodes.iter().map(|x| doc_sv(&x.doc)).collect();
    for i in 1..svs.len() {
        if svs[i] != svs[0] {
            return Err(viol(
                &format!("{}.sv", prof),
                format!("state vectors differ at quiescence: node 0 {:?}, node {} {:?}", svs[0], i, svs[i]),
            ));
        }
    }
    crate::special::at_quiescence(w)
}

// ---- special cell kinds (own worlds) — filled in by their modules ---------------------------------

pub fn corrupt_cell(thorough: bool, cell_seed: u64, full: bool) -> crate::driver::CellResult {
    crate::corrupt::cell_generated(thorough, cell_seed, full)
}
pub fn corrupt_replay(rf: &crate::run::ReplayFile) -> crate::driver::CellResult {
    crate::corrupt::cell_replay(rf)
}
pub fn minimise_special(rf: crate::run::ReplayFile) -> (Option<crate::run::ReplayFile>, String) {
    crate::corrupt::minimise(rf)
}

pub fn coverage_rule(profile: &str) -> String {
    if profile == "corrupt" {
        return "each evaluation is one mutated input decoded at one public entry point inside a resource-metered child process. Inputs: payloads of every wire type produced by a seeded simulated cluster (v1/v2 updates incl. Skip/GC/pending merges, state vectors, snapshots, delete sets, Any values, sticky indexes, sync frames, awareness updates), hit by one seeded fault operator (truncation, byte set to 00/01/7f/80/ff, bit flip, varint replaced by 0/2^31-1/2^32-1/2^53-1/5- and 10-byte overlong, count field set to 2^31/2^32-1/2^53, splice of two payloads, nesting bombs up to depth 60000, inserted bytes, invalid UTF-8, several random bytes, unchanged). distinct = distinct (entry point, input bytes) pairs, counted per batch and summed; every mutated input is non-trivial by construction except the ~9 % left unchanged".into();
    }
    format!(
        "each evaluation is one simulated run of profile `{}`: run configuration, workload, schedule and faults all drawn from one xoshiro256** stream seeded with mix(VERIF_SEED, index). A run is non-trivial iff >=1 fault fired AND >=1 pair of concurrent updates existed AND the armed oracle was evaluated >=5 times; distinct = distinct hash of the full event sequence (event kinds, actors, op kinds, message ids, i.e. workload + delivery order + fault positions)",
        profile
    )
}

pub fn assumptions(_profile: &str) -> Vec<String> {
    vec![
        "sampling, not proof: a clean batch is evidence only for the runs explored".into(),
        "the ledger (which payload reached which replica) is the simulator's own bookkeeping and is trusted".into(),
        "the reference replica runs the same integration code under the one schedule the unit tests exercise (emission order)".into(),
        "histories are short (<=120 events) and values small".into(),
    ]
}

#[allow(dead_code)]
pub fn encode_both(u: &Update) -> Payload {
    Payload {
        v1: u.encode_v1(),
        v2: u.encode_v2(),
    }
}
