//! Oracle layer: invariants evaluated while a run proceeds and at quiescence (DESIGN.md §5).
//! Each profile arms only its own oracles.

use crate::bits::BitSet;
use crate::ops::Op;
use crate::world::*;
use std::rc::Rc;

pub enum TxnKind {
    Local,
    Remote(Rc<Payload>, Enc),
    Gc,
    Undo,
}

#[derive(Default)]
pub struct Pre {
    pub dump: Option<String>,
    pub sv: Option<Vec<(u64, u32)>>,
}

pub struct Monitors {
    pub armed: Vec<String>,
    /// number of `format` operations issued (bounds the quiescence rounds, DESIGN.md §2.2)
    pub format_ops: u32,
}

impl Monitors {
    pub fn new(cfg: &RunCfg, _nodes: &[Node]) -> Monitors {
        let armed: Vec<String> = match cfg.profile.as_str() {
            "sec" => vec!["sec"],
            "gap" => vec!["gap"],
            other => vec![other],
        }
        .into_iter()
        .map(|s| s.to_string())
        .collect();
        Monitors {
            armed,
            format_ops: 0,
        }
    }
}

pub fn pre_txn(_w: &mut World, _n: usize) -> Pre {
    Pre::default()
}

pub fn post_txn(
    w: &mut World,
    n: usize,
    _kind: TxnKind,
    _uid: Option<usize>,
    _pre: Pre,
    ops: &[Op],
) -> VResult {
    for op in ops {
        if matches!(op, Op::TFormat { .. }) {
            w.mon.format_ops += 1;
        }
        if let Op::TInsert { attrs: Some(_), .. } | Op::TEmbed { attrs: Some(_), .. } = op {
            w.mon.format_ops += 1;
        }
    }
    let missing = has_missing(&w.nodes[n].doc);
    if missing {
        w.stats.pending_seen += 1;
    }
    let sec = w.armed("sec");
    let gap = w.armed("gap");
    if (sec || gap) && w.exact(n) {
        let cov = w.nodes[n].lo.clone();
        if w.closed(&cov) {
            w.stats.closed_checks += 1;
            w.stats.oracle_evals += 1;
            if gap {
                check_gap_closed(w, n, &cov, missing)?;
            }
            if sec || gap {
                let r = w.reference(&cov)?;
                let d = doc_dump(&w.nodes[n].doc);
                if d != r.dump {
                    let id = if sec { "sec.reference" } else { "gap.content" };
                    return Err(viol(
                        id,
                        format!(
                            "node {} holds the causally closed update set {:?} but differs from the replica that applied the same set in emission order\n  node: {}\n  ref : {}",
                            n,
                            cov.to_vec(),
                            d,
                            r.dump
                        ),
                    ));
                }
            }
        }
    }
    Ok(())
}

fn check_gap_closed(w: &mut World, n: usize, cov: &BitSet, missing: bool) -> VResult {
    if missing {
        return Err(viol(
            "gap.closed-but-pending",
            format!(
                "node {} has been delivered the causally closed update set {:?} but still reports missing updates",
                n,
                cov.to_vec()
            ),
        ));
    }
    let mut join: Vec<(u64, u32)> = Vec::new();
    for u in cov.iter() {
        sv_join(&mut join, &w.uids[u].after_sv);
    }
    let sv = doc_sv(&w.nodes[n].doc);
    if sv != join {
        return Err(viol(
            "gap.sv",
            format!(
                "node {} holds closed set {:?}: state vector {:?} != join of the senders' state vectors {:?}",
                n,
                cov.to_vec(),
                sv,
                join
            ),
        ));
    }
    Ok(())
}

pub fn on_sync_answer(
    _w: &mut World,
    _a: usize,
    _b: usize,
    _sv: &yrs::StateVector,
    _full: bool,
) -> VResult {
    Ok(())
}

/// weight of profile-specific events in the generator policy
pub fn special_weight(w: &World) -> u32 {
    let _ = w;
    0
}

pub fn draw_special(_w: &mut World) -> Option<Ev> {
    None
}

/// origin of a generated local transaction
pub fn draw_origin(_w: &mut World, _n: usize) -> Option<String> {
    None
}

pub fn exec_special(_w: &mut World, _n: usize, _k: &str, _a: &[u64], _s: &[String]) -> VResult {
    Ok(())
}

pub fn at_quiescence(w: &mut World) -> VResult {
    let full = BitSet::full(w.uids.len());
    for (i, nd) in w.nodes.iter().enumerate() {
        if nd.lo != full {
            return Err(viol(
                "harness.coverage",
                format!("node {} not fully covered at quiescence: {:?}", i, nd.lo.to_vec()),
            ));
        }
    }
    let sec = w.armed("sec");
    let gap = w.armed("gap");
    w.stats.oracle_evals += 1;
    for i in 0..w.nodes.len() {
        if has_missing(&w.nodes[i].doc) {
            let id = if gap { "gap.pending-at-quiescence" } else { "sec.pending-at-quiescence" };
            if sec || gap {
                return Err(viol(
                    id,
                    format!(
                        "node {} has received every update (directly and by full-state sync) but still reports missing updates",
                        i
                    ),
                ));
            }
        }
    }
    if sec || gap {
        let dumps: Vec<String> = w.nodes.iter().map(|x| doc_dump(&x.doc)).collect();
        for i in 1..dumps.len() {
            if dumps[i] != dumps[0] {
                return Err(viol(
                    if sec { "sec.diverged" } else { "gap.diverged" },
                    format!(
                        "replicas 0 and {} received the same set of updates but differ\n  0: {}\n  {}: {}",
                        i, dumps[0], i, dumps[i]
                    ),
                ));
            }
        }
        let r = w.reference(&full)?;
        if dumps[0] != r.dump {
            return Err(viol(
                if sec { "sec.reference" } else { "gap.content" },
                format!(
                    "all replicas agree but differ from the emission-order reference\n  node: {}\n  ref : {}",
                    dumps[0], r.dump
                ),
            ));
        }
        let svs: Vec<Vec<(u64, u32)>> = w.nodes.iter().map(|x| doc_sv(&x.doc)).collect();
        for i in 1..svs.len() {
            if svs[i] != svs[0] {
                return Err(viol(
                    if sec { "sec.sv" } else { "gap.sv" },
                    format!(
                        "state vectors differ at quiescence: node 0 {:?}, node {} {:?}",
                        svs[0], i, svs[i]
                    ),
                ));
            }
        }
    }
    Ok(())
}

// ---- special cell kinds (own worlds) — filled in by their modules ---------------------------------

pub fn corrupt_cell(_thorough: bool, _cell_seed: u64, _full: bool) -> crate::driver::CellResult {
    crate::driver::CellResult::Died("corrupt profile not built".into())
}
pub fn corrupt_replay(_rf: &crate::run::ReplayFile) -> crate::driver::CellResult {
    crate::driver::CellResult::Died("corrupt profile not built".into())
}
pub fn ysync_cell_generated(_thorough: bool, _cell_seed: u64, _full: bool) -> crate::driver::CellResult {
    crate::driver::CellResult::Died("ysync profile not built".into())
}
pub fn ysync_cell_replay(_rf: &crate::run::ReplayFile) -> crate::driver::CellResult {
    crate::driver::CellResult::Died("ysync profile not built".into())
}
pub fn minimise_special(rf: crate::run::ReplayFile) -> (Option<crate::run::ReplayFile>, String) {
    (Some(rf), "not minimised".into())
}

pub fn coverage_rule(profile: &str) -> String {
    format!(
        "each evaluation is one simulated run of profile `{}`: run configuration, workload, schedule and faults all drawn from one xoshiro256** stream seeded with mix(VERIF_SEED, index). A run is non-trivial iff >=1 fault fired AND >=1 pair of concurrent updates existed AND the armed oracle was evaluated >=5 times; distinct = distinct hash of the full event sequence (event kinds, actors, op kinds, message ids, i.e. workload + delivery order + fault positions)",
        profile
    )
}

pub fn assumptions(_profile: &str) -> Vec<String> {
    vec![
        "sampling, not proof: a clean batch is evidence only for the runs explored".into(),
        "the ledger (which payload reached which replica) is the simulator's own bookkeeping and is trusted".into(),
        "the reference replica runs the same integration code under the one schedule the unit tests exercise (emission order)".into(),
        "histories are short (<=120 events) and values small".into(),
    ]
}
