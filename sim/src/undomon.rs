//! C12 — undo/redo are inverses of the captured local changes and touch nothing else.
//! Node 0 is the editor: it owns an `UndoManager` (scope: 1-3 root types, tracked origin "user",
//! simulated clock). It also edits with the untracked origin "other"; the other nodes are remote.

use crate::monitors::TxnKind;
use crate::ops::Tgt;
use crate::seqmon::{observe_seq, SeqObs, Tag};
use crate::world::*;
use std::collections::{HashMap, HashSet};
use std::sync::atomic::{AtomicU64, Ordering};
use std::sync::Arc;
use yrs::sync::Clock;
use yrs::undo::{Options, UndoManager};
use yrs::{ReadTxn, Transact};

pub struct SimClock(pub Arc<AtomicU64>);
impl Clock for SimClock {
    fn now(&self) -> u64 {
        self.0.load(Ordering::SeqCst)
    }
}

pub struct UndoState {
    pub um: UndoManager<()>,
    pub clock: Arc<AtomicU64>,
    pub scope: Vec<String>,
    /// distinct consecutive states of the tracked types along the captured steps, and where we are
    pub d: Vec<String>,
    pub pos: usize,
    /// no untracked origin has changed the tracked types since the stacks were last empty/cleared
    pub pure: bool,
    pub stack_len: usize,
    pub origin_of: HashMap<usize, Option<String>>,
    pub ins_origin: HashMap<Tag, Option<String>>,
    pub parent: HashMap<Tag, Tgt>,
    /// elements a captured (tracked-origin) transaction deleted: re-deleting them on redo is the tracked origin's own contribution
    pub user_deleted: HashSet<Tag>,
    pub pre_seq: Option<SeqObs>,
    pub pre_tracked: String,
    pub pre_untracked: String,
    pub cur_origin: Option<String>,
    /// set by deep observers on the tracked roots: something under a tracked root was touched
    pub touched: Arc<std::sync::atomic::AtomicBool>,
    pub subs: Vec<yrs::Subscription>,
}

const TIMEOUT: u64 = 500;

fn scoped_dump(w: &World, scope: &[String], inside: bool) -> String {
    let txn = w.nodes[0].doc.transact();
    let mut s = String::new();
    for r in ["t", "a", "m", "x"] {
        if scope.iter().any(|x| x == r) != inside {
            continue;
        }
        s.push_str(r);
        s.push('=');
        match r {
            "t" => {
                if let Some(t) = txn.get_text("t") {
                    crate::dump::dump_text(&txn, &t, &mut s)
                }
            }
            "a" => {
                if let Some(t) = txn.get_array("a") {
                    crate::dump::dump_array(&txn, &t, &mut s)
                }
            }
            "m" => {
                if let Some(t) = txn.get_map("m") {
                    crate::dump::dump_map(&txn, &t, &mut s)
                }
            }
            _ => {
                if let Some(t) = txn.get_xml_fragment("x") {
                    crate::dump::dump_xml_fragment(&txn, &t, &mut s)
                }
            }
        }
        s.push(';');
    }
    s
}

fn ensure(w: &mut World) {
    if w.mon.undo.is_some() {
        return;
    }
    // scope drawn from the run configuration (deterministic): client id bits pick the roots
    let bits = w.nodes[0].cfg.client_id;
    let mut scope: Vec<String> = Vec::new();
    for (i, r) in ["t", "a", "m", "x"].iter().enumerate() {
        if (bits >> i) & 1 == 1 {
            scope.push(r.to_string());
        }
    }
    if scope.is_empty() {
        scope.push("t".into());
    }
    if scope.len() == 4 {
        scope.pop();
    }
    let clock = Arc::new(AtomicU64::new(10_000));
    let mut opts: Options<()> = Options {
        capture_timeout_millis: TIMEOUT,
        tracked_origins: HashSet::new(),
        capture_transaction: None,
        timestamp: Arc::new(SimClock(clock.clone())),
        init_undo_stack: Vec::new(),
        init_redo_stack: Vec::new(),
    };
    opts.tracked_origins.insert(yrs::Origin::from("user"));
    let mut um = UndoManager::with_options(opts);
    let doc = w.nodes[0].doc.clone();
    let touched = Arc::new(std::sync::atomic::AtomicBool::new(false));
    let mut subs = Vec::new();
    for r in scope.iter() {
        use yrs::DeepObservable;
        let f = touched.clone();
        match r.as_str() {
            "t" => {
                let t = doc.get_or_insert_text("t");
                um.expand_scope(&doc, &t);
                subs.push(t.observe_deep(move |_, _| f.store(true, Ordering::SeqCst)));
            }
            "a" => {
                let t = doc.get_or_insert_array("a");
                um.expand_scope(&doc, &t);
                subs.push(t.observe_deep(move |_, _| f.store(true, Ordering::SeqCst)));
            }
            "m" => {
                let t = doc.get_or_insert_map("m");
                um.expand_scope(&doc, &t);
                subs.push(t.observe_deep(move |_, _| f.store(true, Ordering::SeqCst)));
            }
            _ => {
                let t = doc.get_or_insert_xml_fragment("x");
                um.expand_scope(&doc, &t);
                subs.push(t.observe_deep(move |_, _| f.store(true, Ordering::SeqCst)));
            }
        }
    }
    let base = scoped_dump(w, &scope, true);
    w.mon.undo = Some(UndoState {
        um,
        clock,
        scope,
        d: vec![base],
        pos: 0,
        pure: true,
        stack_len: 0,
        origin_of: HashMap::new(),
        ins_origin: HashMap::new(),
        parent: HashMap::new(),
        user_deleted: HashSet::new(),
        pre_seq: None,
        pre_tracked: String::new(),
        pre_untracked: String::new(),
        cur_origin: None,
        touched,
        subs,
    });
}

pub fn draw_origin(w: &mut World, n: usize) -> Option<String> {
    if w.cfg.profile != "undo" || n != 0 {
        return None;
    }
    if w.rng.chance(70) {
        Some("user".into())
    } else {
        Some("other".into())
    }
}

pub fn pre_txn(w: &mut World, n: usize) {
    ensure(w);
    if n != 0 {
        return;
    }
    let scope = w.mon.undo.as_ref().unwrap().scope.clone();
    let tracked = scoped_dump(w, &scope, true);
    let untracked = scoped_dump(w, &scope, false);
    let obs = observe_seq(&w.nodes[0].doc.transact());
    let st = w.mon.undo.as_mut().unwrap();
    st.pre_tracked = tracked;
    st.pre_untracked = untracked;
    st.pre_seq = Some(obs);
    st.cur_origin = w.cur_origin.clone();
    st.touched.store(false, Ordering::SeqCst);
}

fn all_tags(o: &SeqObs) -> HashSet<Tag> {
    let mut s = HashSet::new();
    for v in o.values() {
        for t in v {
            s.insert(t.clone());
        }
    }
    s
}

pub fn post_txn(w: &mut World, n: usize, kind: &TxnKind, uid: Option<usize>) -> VResult {
    ensure(w);
    crate::monitors::check_closed_as(w, n, "undo")?;
    if n != 0 {
        return Ok(());
    }
    w.stats.oracle_evals += 1;
    let scope = w.mon.undo.as_ref().unwrap().scope.clone();
    let tracked = scoped_dump(w, &scope, true);
    let obs = observe_seq(&w.nodes[0].doc.transact());
    let origin = w.mon.undo.as_ref().unwrap().cur_origin.clone();
    let st = w.mon.undo.as_mut().unwrap();
    let pre_seq = st.pre_seq.take().unwrap_or_default();
    match kind {
        TxnKind::Local => {
            if let Some(u) = uid {
                st.origin_of.insert(u, origin.clone());
            }
            // attribute new elements to the origin of this transaction
            let was = all_tags(&pre_seq);
            for (c, v) in obs.iter() {
                for t in v {
                    if !was.contains(t) && !st.ins_origin.contains_key(t) {
                        st.ins_origin.insert(t.clone(), origin.clone());
                        st.parent.insert(t.clone(), c.clone());
                    }
                }
            }
            let new_len = st.um.undo_stack().len();
            if origin.as_deref() == Some("user") {
                let now = all_tags(&obs);
                for t in was.iter() {
                    if !now.contains(t) {
                        st.user_deleted.insert(t.clone());
                    }
                }
                // a captured transaction: the redo history is gone; a new step or an extension
                if new_len != st.stack_len || tracked != st.pre_tracked {
                    st.d.truncate(st.pos + 1);
                    if new_len > st.stack_len {
                        if tracked != st.d[st.pos] {
                            st.d.push(tracked.clone());
                            st.pos += 1;
                        }
                    } else if tracked != st.d[st.pos] {
                        // the current step was extended
                        if st.pos > 0 && st.d[st.pos - 1] == tracked {
                            st.d.pop();
                            st.pos -= 1;
                        } else if st.pos == 0 {
                            // extension of a step that so far had no visible effect
                            st.d.push(tracked.clone());
                            st.pos += 1;
                        } else {
                            st.d[st.pos] = tracked.clone();
                        }
                    }
                }
            } else if tracked != st.pre_tracked || st.touched.load(Ordering::SeqCst) {
                st.pure = false;
            }
            st.stack_len = new_len;
        }
        TxnKind::Remote(_, _) | TxnKind::Gc => {
            if tracked != st.pre_tracked || st.touched.load(Ordering::SeqCst) {
                st.pure = false;
            }
            // remote elements are foreign
            let was = all_tags(&pre_seq);
            for (c, v) in obs.iter() {
                for t in v {
                    if !was.contains(t) && !st.ins_origin.contains_key(t) {
                        st.ins_origin.insert(t.clone(), None);
                        st.parent.insert(t.clone(), c.clone());
                    }
                }
            }
            st.stack_len = st.um.undo_stack().len();
        }
        TxnKind::Undo => {
            // what an undo/redo transaction creates (restored copies of deleted content) is the
            // tracked origin's own contribution; what it deletes likewise
            let was = all_tags(&pre_seq);
            let now = all_tags(&obs);
            for (c, v) in obs.iter() {
                for t in v {
                    if !was.contains(t) && !st.ins_origin.contains_key(t) {
                        st.ins_origin.insert(t.clone(), Some("user".into()));
                        st.parent.insert(t.clone(), c.clone());
                    }
                }
            }
            for t in was.iter() {
                if !now.contains(t) {
                    st.user_deleted.insert(t.clone());
                }
            }
        }
    }
    Ok(())
}

fn container_tracked(st: &UndoState, t: &Tag, depth: u32) -> bool {
    // is some ancestor container an insertion of the tracked origin?
    match st.parent.get(t) {
        Some(c @ Tgt::N(_, _)) => {
            let ct = Tag::N(c.clone());
            if st.ins_origin.get(&ct).map(|o| o.as_deref() == Some("user")).unwrap_or(false) {
                return true;
            }
            depth < 16 && container_tracked(st, &ct, depth + 1)
        }
        _ => false,
    }
}

fn do_undo_redo(w: &mut World, undo: bool) -> VResult {
    ensure(w);
    let scope = w.mon.undo.as_ref().unwrap().scope.clone();
    let before_tracked = scoped_dump(w, &scope, true);
    let before_untracked = scoped_dump(w, &scope, false);
    let before_obs = observe_seq(&w.nodes[0].doc.transact());
    let pre = crate::monitors::pre_txn(w, 0);
    let (did, can_more) = {
        let st = w.mon.undo.as_mut().unwrap();
        let did = if undo { st.um.undo_blocking() } else { st.um.redo_blocking() };
        (did, if undo { st.um.can_undo() } else { st.um.can_redo() })
    };
    let uid = w.collect_emission(0, true)?;
    crate::monitors::post_txn(w, 0, TxnKind::Undo, uid, pre, &[])?;
    w.stats.oracle_evals += 1;
    let after_tracked = scoped_dump(w, &scope, true);
    let after_untracked = scoped_dump(w, &scope, false);
    let after_obs = observe_seq(&w.nodes[0].doc.transact());
    let what = if undo { "undo" } else { "redo" };
    // isolation: untracked types untouched
    if before_untracked != after_untracked {
        return Err(viol(
            "undo.untracked-touched",
            format!(
                "{}() changed a type outside the undo manager's scope {:?}\n  before: {}\n  after : {}",
                what, scope, before_untracked, after_untracked
            ),
        ));
    }
    // isolation: elements of other origins survive in their relative order
    {
        let st = w.mon.undo.as_ref().unwrap();
        let after_all = all_tags(&after_obs);
        for (c, v) in before_obs.iter() {
            let foreign: Vec<&Tag> = v.iter().filter(|t| st.ins_origin.get(*t).map(|o| o.as_deref() != Some("user")).unwrap_or(false)).collect();
            for t in foreign.iter() {
                if !after_all.contains(*t) && !container_tracked(st, t, 0) && !st.user_deleted.contains(*t) {
                    return Err(viol(
                        "undo.foreign-lost",
                        format!(
                            "{}() made element {:?} of {:?} disappear; it was inserted by an untracked origin ({:?}) and no container of it was inserted by the tracked origin\n  before: {:?}\n  after : {:?}",
                            what,
                            t,
                            c,
                            st.ins_origin.get(*t),
                            v,
                            after_obs.get(c)
                        ),
                    ));
                }
            }
            if let Some(av) = after_obs.get(c) {
                let surv: Vec<&Tag> = foreign.iter().cloned().filter(|t| av.contains(t)).collect();
                let order_after: Vec<&Tag> = av.iter().filter(|t| surv.contains(t)).collect();
                if surv != order_after {
                    return Err(viol(
                        "undo.foreign-order",
                        format!("{}() changed the relative order of elements of other origins in {:?}: {:?} -> {:?}", what, c, surv, order_after),
                    ));
                }
            }
        }
    }
    // inverse law: stuttering walk over the distinct recorded states
    let st = w.mon.undo.as_mut().unwrap();
    st.stack_len = st.um.undo_stack().len();
    if st.pure {
        if undo {
            let cur = st.d[st.pos].clone();
            if before_tracked != cur {
                // the model lost track (should not happen while pure)
                st.pure = false;
                return Ok(());
            }
            if after_tracked == cur {
                // stutter: a step without visible effect was passed over, or nothing to undo
                if !did && st.pos > 0 {
                    return Err(viol(
                        "undo.inverse",
                        format!(
                            "undo() reported nothing to undo, but {} captured step(s) with visible effect have not been undone\n  current : {}\n  expected: {}",
                            st.pos, cur, st.d[st.pos - 1]
                        ),
                    ));
                }
                if did && !can_more && st.pos > 0 {
                    return Err(viol(
                        "undo.inverse",
                        format!(
                            "the undo stack ran dry although {} captured step(s) with visible effect are not undone\n  current : {}\n  expected: {}",
                            st.pos, cur, st.d[st.pos - 1]
                        ),
                    ));
                }
            } else if st.pos > 0 && after_tracked == st.d[st.pos - 1] {
                st.pos -= 1;
                if !can_more && st.pos > 0 {
                    return Err(viol(
                        "undo.inverse",
                        format!("the undo stack ran dry although {} captured step(s) with visible effect are not undone", st.pos),
                    ));
                }
            } else {
                return Err(viol(
                    "undo.inverse",
                    format!(
                        "undo() did not restore the tracked types to the content before the last captured step\n  before undo: {}\n  after undo : {}\n  expected   : {}",
                        cur,
                        after_tracked,
                        if st.pos > 0 { st.d[st.pos - 1].clone() } else { "(no captured step left: unchanged)".into() }
                    ),
                ));
            }
        } else {
            let cur = st.d[st.pos].clone();
            if before_tracked != cur {
                st.pure = false;
                return Ok(());
            }
            if after_tracked == cur {
                if !did && st.pos + 1 < st.d.len() {
                    return Err(viol(
                        "undo.inverse",
                        format!(
                            "redo() reported nothing to redo, but {} undone step(s) with visible effect have not been redone\n  current : {}\n  expected: {}",
                            st.d.len() - 1 - st.pos,
                            cur,
                            st.d[st.pos + 1]
                        ),
                    ));
                }
            } else if st.pos + 1 < st.d.len() && after_tracked == st.d[st.pos + 1] {
                st.pos += 1;
            } else {
                return Err(viol(
                    "undo.inverse",
                    format!(
                        "redo() did not restore the tracked types to the content after the undone step\n  before redo: {}\n  after redo : {}\n  expected   : {}",
                        cur,
                        after_tracked,
                        if st.pos + 1 < st.d.len() { st.d[st.pos + 1].clone() } else { "(nothing to redo: unchanged)".into() }
                    ),
                ));
            }
        }
    }
    Ok(())
}

pub fn at_quiescence(_w: &mut World) -> VResult {
    Ok(())
}

fn sp(k: &str, a: Vec<u64>) -> Ev {
    Ev::Special {
        n: 0,
        k: k.to_string(),
        a,
        s: vec![],
    }
}

pub fn draw(w: &mut World) -> Option<Ev> {
    Some(match w.rng.below(10) {
        0..=3 => sp("undo", vec![]),
        4..=5 => sp("redo", vec![]),
        6..=7 => {
            // the clock advances by 0 (same capture step) or by >= 2 x timeout (new step)
            let d = if w.rng.chance(40) { 0 } else { 2 * TIMEOUT + w.rng.below(1000) };
            sp("clock", vec![d])
        }
        8 => sp("undo-reset", vec![]),
        _ => sp("undo-clear", vec![]),
    })
}

pub fn exec(w: &mut World, _n: usize, k: &str, a: &[u64], _s: &[String]) -> VResult {
    ensure(w);
    match k {
        "undo" => do_undo_redo(w, true),
        "redo" => do_undo_redo(w, false),
        "clock" => {
            let d = a.first().copied().unwrap_or(0);
            w.stats.f_clock += 1;
            w.stats.sim_ms += d;
            w.mon.undo.as_ref().unwrap().clock.fetch_add(d, Ordering::SeqCst);
            Ok(())
        }
        "undo-reset" => {
            w.mon.undo.as_mut().unwrap().um.reset();
            Ok(())
        }
        "undo-clear" => {
            let scope = w.mon.undo.as_ref().unwrap().scope.clone();
            let base = scoped_dump(w, &scope, true);
            let st = w.mon.undo.as_mut().unwrap();
            st.um.clear_all();
            st.d = vec![base];
            st.pos = 0;
            st.pure = true;
            st.stack_len = 0;
            Ok(())
        }
        _ => Ok(()),
    }
}
