//! C12 — undo/redo are inverses of the captured local changes and touch nothing else.
//! Node 0 is the editor: it owns an `UndoManager` (scope: 1-3 root types, tracked origin "user",
//! simulated clock). It also edits with the untracked origin "other"; the other nodes are remote.

use crate::monitors::TxnKind;
use crate::ops::Tgt;
use crate::seqmon::{observe_seq, SeqObs, Tag};
use crate::world::*;
use std::collections::{HashMap, HashSet};
use std::sync::atomic::{AtomicU64, Ordering};
use std::sync::Arc;
use yrs::sync::Clock;
use yrs::undo::{Options, UndoManager};
use yrs::{ReadTxn, Transact};

pub struct SimClock(pub Arc<AtomicU64>);
impl Clock for SimClock {
    fn now(&self) -> u64 {
        self.0.load(Ordering::SeqCst)
    }
}

pub struct UndoState {
    pub um: UndoManager<()>,
    pub clock: Arc<AtomicU64>,
    pub scope: Vec<String>,
    /// content of the tracked types when the undo stack was last empty, after each item of the
    /// manager's undo stack, and the content each item of its redo stack restores
    pub base: String,
    pub stack_states: Vec<String>,
    pub redo_states: Vec<String>,
    /// no untracked origin has changed the tracked types since the stacks were last empty/cleared
    pub pure: bool,
    pub stack_len: usize,
    pub origin_of: HashMap<usize, Option<String>>,
    pub ins_origin: HashMap<Tag, Option<String>>,
    pub parent: HashMap<Tag, Tgt>,
    /// elements a captured (tracked-origin) transaction deleted: re-deleting them on redo is the tracked origin's own contribution
    pub user_deleted: HashSet<Tag>,
    pub pre_seq: Option<SeqObs>,
    pub pre_tracked: String,
    pub pre_untracked: String,
    pub cur_origin: Option<String>,
    /// set by deep observers on the tracked roots: something under a tracked root was touched
    pub touched: Arc<std::sync::atomic::AtomicBool>,
    pub subs: Vec<yrs::Subscription>,
    pub why: Vec<&'static str>,
}

const TIMEOUT: u64 = 500;

fn scoped_dump(w: &World, scope: &[String], inside: bool) -> String {
    let txn = w.nodes[0].doc.transact();
    let mut s = String::new();
    for r in ["t", "a", "m", "x"] {
        if scope.iter().any(|x| x == r) != inside {
            continue;
        }
        s.push_str(r);
        s.push('=');
        match r {
            "t" => {
                if let Some(t) = txn.get_text("t") {
                    crate::dump::dump_text(&txn, &t, &mut s)
                }
            }
            "a" => {
                if let Some(t) = txn.get_array("a") {
                    crate::dump::dump_array(&txn, &t, &mut s)
                }
            }
            "m" => {
                if let Some(t) = txn.get_map("m") {
                    crate::dump::dump_map(&txn, &t, &mut s)
                }
            }
            _ => {
                if let Some(t) = txn.get_xml_fragment("x") {
                    crate::dump::dump_xml_fragment(&txn, &t, &mut s)
                }
            }
        }
        s.push(';');
    }
    s
}

fn ensure(w: &mut World) {
    if w.mon.undo.is_some() {
        return;
    }
    // scope drawn from the run configuration (deterministic): client id bits pick the roots
    let bits = w.nodes[0].cfg.client_id;
    let mut scope: Vec<String> = Vec::new();
    for (i, r) in ["t", "a", "m", "x"].iter().enumerate() {
        if (bits >> i) & 1 == 1 {
            scope.push(r.to_string());
        }
    }
    if scope.is_empty() {
        scope.push("t".into());
    }
    if scope.len() == 4 {
        scope.pop();
    }
    let clock = Arc::new(AtomicU64::new(10_000));
    let mut opts: Options<()> = Options {
        capture_timeout_millis: TIMEOUT,
        tracked_origins: HashSet::new(),
        capture_transaction: None,
        timestamp: Arc::new(SimClock(clock.clone())),
        init_undo_stack: Vec::new(),
        init_redo_stack: Vec::new(),
    };
    opts.tracked_origins.insert(yrs::Origin::from("user"));
    let mut um = UndoManager::with_options(opts);
    let doc = w.nodes[0].doc.clone();
    let touched = Arc::new(std::sync::atomic::AtomicBool::new(false));
    let mut subs = Vec::new();
    for r in scope.iter() {
        use yrs::DeepObservable;
        let f = touched.clone();
        match r.as_str() {
            "t" => {
                let t = doc.get_or_insert_text("t");
                um.expand_scope(&doc, &t);
                subs.push(t.observe_deep(move |_, _| f.store(true, Ordering::SeqCst)));
            }
            "a" => {
                let t = doc.get_or_insert_array("a");
                um.expand_scope(&doc, &t);
                subs.push(t.observe_deep(move |_, _| f.store(true, Ordering::SeqCst)));
            }
            "m" => {
                let t = doc.get_or_insert_map("m");
                um.expand_scope(&doc, &t);
                subs.push(t.observe_deep(move |_, _| f.store(true, Ordering::SeqCst)));
            }
            _ => {
                let t = doc.get_or_insert_xml_fragment("x");
                um.expand_scope(&doc, &t);
                subs.push(t.observe_deep(move |_, _| f.store(true, Ordering::SeqCst)));
            }
        }
    }
    let base = scoped_dump(w, &scope, true);
    w.mon.undo = Some(UndoState {
        um,
        clock,
        scope,
        base,
        stack_states: Vec::new(),
        redo_states: Vec::new(),
        pure: true,
        stack_len: 0,
        origin_of: HashMap::new(),
        ins_origin: HashMap::new(),
        parent: HashMap::new(),
        user_deleted: HashSet::new(),
        pre_seq: None,
        pre_tracked: String::new(),
        pre_untracked: String::new(),
        cur_origin: None,
        touched,
        subs,
        why: Vec::new(),
    });
}

pub fn draw_origin(w: &mut World, n: usize) -> Option<String> {
    if w.cfg.sticky_undo && n == 0 && w.cfg.profile != "undo" {
        // sticky / gc profiles with an undo manager on node 0: its own edits are the tracked ones
        return Some("user".into());
    }
    if w.cfg.profile != "undo" || n != 0 {
        return None;
    }
    if w.rng.chance(70) {
        Some("user".into())
    } else {
        Some("other".into())
    }
}

pub fn pre_txn(w: &mut World, n: usize) {
    ensure(w);
    if n != 0 {
        return;
    }
    let scope = w.mon.undo.as_ref().unwrap().scope.clone();
    let tracked = scoped_dump(w, &scope, true);
    let untracked = scoped_dump(w, &scope, false);
    let obs = observe_seq(&w.nodes[0].doc.transact());
    let st = w.mon.undo.as_mut().unwrap();
    st.pre_tracked = tracked;
    st.pre_untracked = untracked;
    st.pre_seq = Some(obs);
    st.cur_origin = w.cur_origin.clone();
    st.touched.store(false, Ordering::SeqCst);
}

fn all_tags(o: &SeqObs) -> HashSet<Tag> {
    let mut s = HashSet::new();
    for v in o.values() {
        for t in v {
            s.insert(t.clone());
        }
    }
    s
}

pub fn post_txn(w: &mut World, n: usize, kind: &TxnKind, uid: Option<usize>) -> VResult {
    ensure(w);
    let r = post_txn_inner(w, n, kind, uid);
    flush_probes(w);
    r
}

fn post_txn_inner(w: &mut World, n: usize, kind: &TxnKind, uid: Option<usize>) -> VResult {
    ensure(w);
    crate::monitors::check_closed_as(w, n, "undo")?;
    if n != 0 {
        return Ok(());
    }
    w.stats.oracle_evals += 1;
    let scope = w.mon.undo.as_ref().unwrap().scope.clone();
    let tracked = scoped_dump(w, &scope, true);
    let obs = observe_seq(&w.nodes[0].doc.transact());
    let origin = w.mon.undo.as_ref().unwrap().cur_origin.clone();
    let st = w.mon.undo.as_mut().unwrap();
    let pre_seq = st.pre_seq.take().unwrap_or_default();
    match kind {
        TxnKind::Local => {
            if let Some(u) = uid {
                st.origin_of.insert(u, origin.clone());
            }
            // attribute new elements to the origin of this transaction
            let was = all_tags(&pre_seq);
            for (c, v) in obs.iter() {
                for t in v {
                    if !was.contains(t) && !st.ins_origin.contains_key(t) {
                        st.ins_origin.insert(t.clone(), origin.clone());
                        st.parent.insert(t.clone(), c.clone());
                    }
                }
            }
            let new_len = st.um.undo_stack().len();
            if origin.as_deref() == Some("user") {
                let now = all_tags(&obs);
                for t in was.iter() {
                    if !now.contains(t) {
                        st.user_deleted.insert(t.clone());
                    }
                }
                // a captured transaction: a new stack item or an extension of the top one; the
                // redo stack is cleared by any captured change
                if st.stack_len == 0 && new_len == 1 && st.um.redo_stack().is_empty() {
                    // both stacks were empty: a new history starts here
                    st.base = st.pre_tracked.clone();
                    st.stack_states.clear();
                    st.redo_states.clear();
                    if !st.pure {
                        st.why.push("undo.pure-again:new-history");
                    }
                    st.pure = true;
                }
                if new_len != st.stack_len || tracked != st.pre_tracked || st.touched.load(Ordering::SeqCst) {
                    st.redo_states.truncate(st.um.redo_stack().len());
                    while st.stack_states.len() > new_len {
                        st.stack_states.pop();
                    }
                    if st.stack_states.len() < new_len {
                        while st.stack_states.len() < new_len {
                            st.stack_states.push(tracked.clone());
                        }
                    } else if let Some(last) = st.stack_states.last_mut() {
                        *last = tracked.clone();
                    } else if tracked != st.base {
                        // changed although nothing was captured: the model cannot follow
                        { st.pure = false; st.why.push("undo.impure:uncaptured-change"); }
                    }
                }
            } else if tracked != st.pre_tracked || st.touched.load(Ordering::SeqCst) {
                { st.pure = false; st.why.push("undo.impure:other-origin"); }
            }
            st.stack_len = new_len;
        }
        TxnKind::Remote(_, _) | TxnKind::Gc => {
            if tracked != st.pre_tracked || st.touched.load(Ordering::SeqCst) {
                { st.pure = false; st.why.push("undo.impure:remote"); }
            }
            // remote elements are foreign
            let was = all_tags(&pre_seq);
            for (c, v) in obs.iter() {
                for t in v {
                    if !was.contains(t) && !st.ins_origin.contains_key(t) {
                        st.ins_origin.insert(t.clone(), None);
                        st.parent.insert(t.clone(), c.clone());
                    }
                }
            }
            st.stack_len = st.um.undo_stack().len();
        }
        TxnKind::Undo => {
            // what an undo/redo transaction creates (restored copies of deleted content) is the
            // tracked origin's own contribution; what it deletes likewise
            let was = all_tags(&pre_seq);
            let now = all_tags(&obs);
            for (c, v) in obs.iter() {
                for t in v {
                    if !was.contains(t) && !st.ins_origin.contains_key(t) {
                        st.ins_origin.insert(t.clone(), Some("user".into()));
                        st.parent.insert(t.clone(), c.clone());
                    }
                }
            }
            for t in was.iter() {
                if !now.contains(t) {
                    st.user_deleted.insert(t.clone());
                }
            }
        }
    }
    Ok(())
}

fn container_tracked(st: &UndoState, t: &Tag, depth: u32) -> bool {
    // is some ancestor container an insertion of the tracked origin?
    match st.parent.get(t) {
        Some(c @ Tgt::N(_, _)) => {
            let ct = Tag::N(c.clone());
            if st.ins_origin.get(&ct).map(|o| o.as_deref() == Some("user")).unwrap_or(false) {
                return true;
            }
            depth < 16 && container_tracked(st, &ct, depth + 1)
        }
        _ => false,
    }
}

fn do_undo_redo(w: &mut World, undo: bool) -> VResult {
    ensure(w);
    let r = do_undo_redo_inner(w, undo);
    flush_probes(w);
    r
}

fn do_undo_redo_inner(w: &mut World, undo: bool) -> VResult {
    ensure(w);
    let scope = w.mon.undo.as_ref().unwrap().scope.clone();
    let before_tracked = scoped_dump(w, &scope, true);
    let before_untracked = scoped_dump(w, &scope, false);
    let before_obs = observe_seq(&w.nodes[0].doc.transact());
    let pre = crate::monitors::pre_txn(w, 0);
    let _ = yrs::verif::take_probes();
    let (did, can_more) = {
        let st = w.mon.undo.as_mut().unwrap();
        let did = if undo { st.um.undo_blocking() } else { st.um.redo_blocking() };
        (did, if undo { st.um.can_undo() } else { st.um.can_redo() })
    };
    // F11 is identified by its call site: ItemPtr::redo refused to restore a map entry because of
    // its right neighbour during this very call (in the inverse-law regime no other origin has
    // edited, so there is no foreign change it could conflict with)
    let refused = yrs::verif::take_probes().iter().any(|(s, _)| *s == "redo.map-entry-refused");
    let inverse_oracle = if refused { "undo.inverse-map-redo-refused" } else { "undo.inverse" };
    let uid = w.collect_emission(0, true)?;
    crate::monitors::post_txn(w, 0, TxnKind::Undo, uid, pre, &[])?;
    w.stats.oracle_evals += 1;
    let after_tracked = scoped_dump(w, &scope, true);
    let after_untracked = scoped_dump(w, &scope, false);
    let after_obs = observe_seq(&w.nodes[0].doc.transact());
    let what = if undo { "undo" } else { "redo" };
    // isolation: untracked types untouched
    if before_untracked != after_untracked {
        return Err(viol(
            "undo.untracked-touched",
            format!(
                "{}() changed a type outside the undo manager's scope {:?}\n  before: {}\n  after : {}",
                what, scope, before_untracked, after_untracked
            ),
        ));
    }
    // isolation: elements of other origins survive in their relative order
    {
        let st = w.mon.undo.as_ref().unwrap();
        let after_all = all_tags(&after_obs);
        for (c, v) in before_obs.iter() {
            let foreign: Vec<&Tag> = v.iter().filter(|t| st.ins_origin.get(*t).map(|o| o.as_deref() != Some("user")).unwrap_or(false)).collect();
            for t in foreign.iter() {
                if !after_all.contains(*t) && !container_tracked(st, t, 0) && !st.user_deleted.contains(*t) {
                    return Err(viol(
                        "undo.foreign-lost",
                        format!(
                            "{}() made element {:?} of {:?} disappear; it was inserted by an untracked origin ({:?}) and no container of it was inserted by the tracked origin\n  before: {:?}\n  after : {:?}",
                            what,
                            t,
                            c,
                            st.ins_origin.get(*t),
                            v,
                            after_obs.get(c)
                        ),
                    ));
                }
            }
            if let Some(av) = after_obs.get(c) {
                let surv: Vec<&Tag> = foreign.iter().cloned().filter(|t| av.contains(t)).collect();
                let order_after: Vec<&Tag> = av.iter().filter(|t| surv.contains(t)).collect();
                if surv != order_after {
                    return Err(viol(
                        "undo.foreign-order",
                        format!("{}() changed the relative order of elements of other origins in {:?}: {:?} -> {:?}", what, c, surv, order_after),
                    ));
                }
            }
        }
    }
    // inverse law: one call reverts one step, passing over steps that changed nothing visible
    let st = w.mon.undo.as_mut().unwrap();
    let new_undo = st.um.undo_stack().len();
    let new_redo = st.um.redo_stack().len();
    st.stack_len = new_undo;
    if !st.pure {
        st.why.push("undo.inverse-skipped:impure");
        // keep the model in step with the stacks
        st.stack_states.resize(new_undo, after_tracked.clone());
        st.redo_states.resize(new_redo, after_tracked.clone());
        return Ok(());
    }
    let cur = before_tracked.clone();
    st.why.push(if undo { "undo.inverse-evaluated:undo" } else { "undo.inverse-evaluated:redo" });
    if did && after_tracked != cur {
        st.why.push("undo.inverse-evaluated:visible-change");
    }
    if undo {
        let mut states = vec![st.base.clone()];
        states.extend(st.stack_states.iter().cloned());
        if states.last() != Some(&cur) {
            { st.pure = false; st.why.push("undo.impure:model-lost-before-undo"); }
            st.stack_states.resize(new_undo, after_tracked.clone());
            st.redo_states.resize(new_redo, after_tracked.clone());
            return Ok(());
        }
        // The manager pops items until one of them changes something. The content must now be the
        // one recorded at the new stack height, and no visible state may have been passed over:
        // only the last popped item may be one with a visible effect.
        let old = st.stack_states.len();
        let expected = if new_undo <= old { Some(states[new_undo].clone()) } else { None };
        let passed_over = (new_undo + 1..=old).any(|k| states[k] != cur);
        let ok = match &expected {
            Some(e) => after_tracked == *e && !passed_over,
            None => after_tracked == cur,
        };
        if !ok {
            if refused {
                // recorded (soft), the model is resynchronised and the run goes on
                st.pure = false;
                st.why.push("undo.impure:after-F11");
            }
            let v = viol(
                inverse_oracle,
                format!(
                    "undo() (returned {}, stack {} -> {} items) did not restore the tracked types to the content before the last captured step with a visible effect\n  before undo: {}\n  after undo : {}\n  expected   : {}",
                    did,
                    st.stack_states.len(),
                    new_undo,
                    cur,
                    after_tracked,
                    expected.unwrap_or_else(|| "(no captured step with a visible effect: unchanged)".into())
                ),
            );
            st.stack_states.resize(new_undo, after_tracked.clone());
            st.redo_states.resize(new_redo, after_tracked.clone());
            return Err(v);
        }
        let grown = new_redo.saturating_sub(st.redo_states.len());
        for _ in 0..grown {
            st.redo_states.push(cur.clone());
        }
        st.redo_states.truncate(new_redo);
        st.stack_states.truncate(new_undo);
        // whatever is left on the stack must end in the content we see now
        if let Some(last) = st.stack_states.last() {
            if *last != after_tracked {
                { st.pure = false; st.why.push("undo.impure:stack-top-mismatch"); }
            }
        } else if st.base != after_tracked {
            { st.pure = false; st.why.push("undo.impure:base-mismatch"); }
        }
        let _ = can_more;
    } else {
        let old = st.redo_states.len();
        let expected = if new_redo < old { Some(st.redo_states[new_redo].clone()) } else { None };
        let passed_over = (new_redo + 1..old).any(|k| st.redo_states[k] != cur);
        let ok = match &expected {
            Some(e) => after_tracked == *e && !passed_over,
            None => after_tracked == cur,
        };
        if !ok {
            if refused {
                st.pure = false;
                st.why.push("undo.impure:after-F11");
            }
            let v = viol(
                inverse_oracle,
                format!(
                    "redo() (returned {}, redo stack {} -> {} items) did not restore the tracked types to the content after the undone step\n  before redo: {}\n  after redo : {}\n  expected   : {}",
                    did,
                    st.redo_states.len(),
                    new_redo,
                    cur,
                    after_tracked,
                    expected.unwrap_or_else(|| "(nothing with a visible effect to redo: unchanged)".into())
                ),
            );
            st.stack_states.resize(new_undo, after_tracked.clone());
            st.redo_states.resize(new_redo, after_tracked.clone());
            return Err(v);
        }
        let grown = new_undo.saturating_sub(st.stack_states.len());
        for k in 0..grown {
            st.stack_states.push(if k + 1 == grown { after_tracked.clone() } else { cur.clone() });
        }
        st.stack_states.truncate(new_undo);
        st.redo_states.truncate(new_redo);
    }
    Ok(())
}

fn flush_probes(w: &mut World) {
    let why: Vec<&'static str> = std::mem::take(&mut w.mon.undo.as_mut().unwrap().why);
    for p in why {
        w.probe(p);
    }
}

pub fn at_quiescence(_w: &mut World) -> VResult {
    Ok(())
}

fn sp(k: &str, a: Vec<u64>) -> Ev {
    Ev::Special {
        n: 0,
        k: k.to_string(),
        a,
        s: vec![],
    }
}

pub fn draw(w: &mut World) -> Option<Ev> {
    Some(match w.rng.below(10) {
        0..=3 => sp("undo", vec![]),
        4..=5 => sp("redo", vec![]),
        6..=7 => {
            // the clock advances by 0 (same capture step) or by >= 2 x timeout (new step)
            let d = if w.rng.chance(40) { 0 } else { 2 * TIMEOUT + w.rng.below(1000) };
            sp("clock", vec![d])
        }
        8 => sp("undo-reset", vec![]),
        _ => sp("undo-clear", vec![]),
    })
}

pub fn exec(w: &mut World, _n: usize, k: &str, a: &[u64], _s: &[String]) -> VResult {
    ensure(w);
    match k {
        "undo" => do_undo_redo(w, true),
        "redo" => do_undo_redo(w, false),
        "clock" => {
            let d = a.first().copied().unwrap_or(0);
            w.stats.f_clock += 1;
            w.stats.sim_ms += d;
            w.mon.undo.as_ref().unwrap().clock.fetch_add(d, Ordering::SeqCst);
            Ok(())
        }
        "undo-reset" => {
            w.mon.undo.as_mut().unwrap().um.reset();
            Ok(())
        }
        "undo-clear" => {
            let scope = w.mon.undo.as_ref().unwrap().scope.clone();
            let base = scoped_dump(w, &scope, true);
            let st = w.mon.undo.as_mut().unwrap();
            st.um.clear_all();
            st.base = base;
            st.stack_states.clear();
            st.redo_states.clear();
            st.pure = true;
            st.stack_len = 0;
            Ok(())
        }
        _ => Ok(()),
    }
}
