//! Element-tracker profiles: C04 `seq` (exactly once / stable order / placed where inserted) and
//! C05 `lww` (map entries are causal last-writer-wins registers). Both attribute every element and
//! every map write to the update that made it, at its origin, by observing the acting replica
//! before and after the local transaction (DESIGN.md §4.4).

use crate::bits::BitSet;
use crate::dump;
use crate::monitors::{Pre, TxnKind};
use crate::ops::{self, Kind, Op, Tgt, Val};
use crate::world::*;
use std::collections::{BTreeMap, HashMap, HashSet};
use yrs::{Any, Array, ArrayRef, Map, MapRef, Out, ReadTxn, SharedRef, Text, TextRef, Transact, Xml, XmlElementRef, XmlFragment, XmlFragmentRef, XmlOut};

#[derive(Clone, Debug, PartialEq, Eq, Hash, PartialOrd, Ord)]
pub enum Tag {
    C(char),
    I(i64),
    N(Tgt),
}

pub type SeqObs = BTreeMap<Tgt, Vec<Tag>>;

/// map observation: (map target) -> key -> value identity
pub type MapObs = BTreeMap<Tgt, BTreeMap<String, String>>;

#[derive(Clone, Debug, PartialEq)]
pub enum WKind {
    Set(String),
    Remove,
}

#[derive(Clone, Debug)]
pub struct Write {
    pub uid: usize,
    /// order inside the transaction
    pub k: usize,
    pub map: Tgt,
    pub key: String,
    pub kind: WKind,
    /// nested shared type created by this write (if any)
    pub nested: Option<Tgt>,
}

pub struct SeqState {
    // C04
    pub ins: HashMap<Tag, usize>,
    pub parent: HashMap<Tag, Tgt>,
    pub del: HashMap<Tag, Vec<usize>>,
    /// run-global pairwise order per container: (x, y) present => x was seen before y
    pub before: HashMap<Tgt, HashSet<(Tag, Tag)>>,
    // C05
    pub writes: Vec<Write>,
    /// map writes of the transaction being executed (attributed when its uid is known)
    pub cur_writes: Vec<(Tgt, String, WKind, Option<Tgt>)>,
    pub placement_err: Option<String>,
}

impl SeqState {
    pub fn new(_cfg: &RunCfg, _nodes: &[Node]) -> SeqState {
        SeqState {
            ins: HashMap::new(),
            parent: HashMap::new(),
            del: HashMap::new(),
            before: HashMap::new(),
            writes: Vec::new(),
            cur_writes: Vec::new(),
            placement_err: None,
        }
    }
}

// ---- observation ---------------------------------------------------------------------------------

fn tgt_of<S: SharedRef>(s: &S) -> Tgt {
    Tgt::from_branch_id(s.hook().id())
}

fn obs_out<T: ReadTxn>(txn: &T, o: &Out, acc: &mut SeqObs) -> Option<Tag> {
    match o {
        Out::Any(Any::BigInt(i)) => Some(Tag::I(*i)),
        Out::Any(Any::Number(f)) => Some(Tag::I(*f as i64)),
        Out::YText(t) => {
            obs_text(txn, t, acc);
            Some(Tag::N(tgt_of(t)))
        }
        Out::YXmlText(t) => {
            let tr: &TextRef = t.as_ref();
            obs_text(txn, tr, acc);
            Some(Tag::N(tgt_of(t)))
        }
        Out::YArray(a) => {
            obs_array(txn, a, acc);
            Some(Tag::N(tgt_of(a)))
        }
        Out::YXmlElement(e) => {
            let f: &XmlFragmentRef = e.as_ref();
            obs_xml(txn, f, acc);
            Some(Tag::N(tgt_of(e)))
        }
        Out::YXmlFragment(f) => {
            obs_xml(txn, f, acc);
            Some(Tag::N(tgt_of(f)))
        }
        _ => None,
    }
}

fn obs_text<T: ReadTxn>(txn: &T, t: &TextRef, acc: &mut SeqObs) {
    let mut tags = Vec::new();
    for u in dump::text_units(txn, t) {
        if let Some(c) = u.ch {
            tags.push(Tag::C(c));
        }
    }
    acc.insert(tgt_of(t), tags);
}

fn obs_array<T: ReadTxn>(txn: &T, a: &ArrayRef, acc: &mut SeqObs) {
    let items: Vec<Out> = a.iter(txn).collect();
    let mut tags = Vec::new();
    for o in items.iter() {
        if let Some(t) = obs_out(txn, o, acc) {
            tags.push(t);
        }
    }
    acc.insert(tgt_of(a), tags);
}

fn obs_xml<T: ReadTxn>(txn: &T, f: &XmlFragmentRef, acc: &mut SeqObs) {
    let children: Vec<XmlOut> = f.children(txn).collect();
    let mut tags = Vec::new();
    for c in children {
        match c {
            XmlOut::Element(e) => {
                let ff: &XmlFragmentRef = e.as_ref();
                obs_xml(txn, ff, acc);
                tags.push(Tag::N(tgt_of(&e)));
            }
            XmlOut::Fragment(ff) => {
                obs_xml(txn, &ff, acc);
                tags.push(Tag::N(tgt_of(&ff)));
            }
            XmlOut::Text(t) => {
                let tr: &TextRef = t.as_ref();
                obs_text(txn, tr, acc);
                tags.push(Tag::N(tgt_of(&t)));
            }
        }
    }
    acc.insert(tgt_of(f), tags);
}

pub fn observe_seq<T: ReadTxn>(txn: &T) -> SeqObs {
    let mut acc = SeqObs::new();
    if let Some(t) = txn.get_text(dump::ROOT_TEXT) {
        obs_text(txn, &t, &mut acc);
    }
    if let Some(a) = txn.get_array(dump::ROOT_ARRAY) {
        obs_array(txn, &a, &mut acc);
    }
    if let Some(x) = txn.get_xml_fragment(dump::ROOT_XML) {
        obs_xml(txn, &x, &mut acc);
    }
    acc
}

/// visible tag list of one container (used for the per-op placement check at the origin)
pub fn list_of<T: ReadTxn>(txn: &T, tgt: &Tgt) -> Option<Vec<Tag>> {
    let (ptr, kind) = ops::resolve_any(txn, tgt)?;
    let mut acc = SeqObs::new();
    match kind {
        Kind::Text | Kind::XmlText => obs_text(txn, &TextRef::from(ptr), &mut acc),
        Kind::Array => obs_array(txn, &ArrayRef::from(ptr), &mut acc),
        Kind::XmlFragment | Kind::XmlElement => obs_xml(txn, &XmlFragmentRef::from(ptr), &mut acc),
        Kind::Map => return None,
    }
    acc.remove(tgt)
}

fn value_id<T: ReadTxn>(txn: &T, o: &Out) -> String {
    match o {
        Out::Any(a) => dump::any_str(a),
        Out::YText(t) => format!("{:?}", tgt_of(t)),
        Out::YArray(t) => format!("{:?}", tgt_of(t)),
        Out::YMap(t) => format!("{:?}", tgt_of(t)),
        Out::YXmlElement(t) => format!("{:?}", tgt_of(t)),
        Out::YXmlFragment(t) => format!("{:?}", tgt_of(t)),
        Out::YXmlText(t) => format!("{:?}", tgt_of(t)),
        other => {
            let mut s = String::new();
            dump::dump_out(txn, other, &mut s);
            s
        }
    }
}

fn nested_tgt(o: &Out) -> Option<Tgt> {
    match o {
        Out::YText(t) => Some(tgt_of(t)),
        Out::YArray(t) => Some(tgt_of(t)),
        Out::YMap(t) => Some(tgt_of(t)),
        Out::YXmlElement(t) => Some(tgt_of(t)),
        Out::YXmlFragment(t) => Some(tgt_of(t)),
        Out::YXmlText(t) => Some(tgt_of(t)),
        _ => None,
    }
}

fn obs_map_rec<T: ReadTxn>(txn: &T, o: &Out, acc: &mut MapObs) {
    match o {
        Out::YMap(m) => obs_map(txn, m, acc),
        Out::YArray(a) => {
            let items: Vec<Out> = a.iter(txn).collect();
            for i in items.iter() {
                obs_map_rec(txn, i, acc);
            }
        }
        Out::YXmlElement(e) => obs_xml_attrs(txn, e, acc),
        Out::YXmlFragment(f) => {
            let ch: Vec<XmlOut> = f.children(txn).collect();
            for c in ch {
                if let XmlOut::Element(e) = c {
                    obs_xml_attrs(txn, &e, acc);
                }
            }
        }
        _ => {}
    }
}

fn obs_map<T: ReadTxn>(txn: &T, m: &MapRef, acc: &mut MapObs) {
    let entries: Vec<(String, Out)> = m.iter(txn).map(|(k, v)| (k.to_string(), v)).collect();
    let mut e = BTreeMap::new();
    for (k, v) in entries.iter() {
        e.insert(k.clone(), value_id(txn, v));
    }
    acc.insert(tgt_of(m), e);
    for (_, v) in entries.iter() {
        obs_map_rec(txn, v, acc);
    }
}

fn obs_xml_attrs<T: ReadTxn>(txn: &T, e: &XmlElementRef, acc: &mut MapObs) {
    let mut m = BTreeMap::new();
    for (k, v) in e.attributes(txn) {
        m.insert(k.to_string(), value_id(txn, &v));
    }
    acc.insert(tgt_of(e), m);
    let ch: Vec<XmlOut> = e.children(txn).collect();
    for c in ch {
        if let XmlOut::Element(e2) = c {
            obs_xml_attrs(txn, &e2, acc);
        }
    }
}

pub fn observe_maps<T: ReadTxn>(txn: &T) -> MapObs {
    let mut acc = MapObs::new();
    if let Some(m) = txn.get_map(dump::ROOT_MAP) {
        obs_map(txn, &m, &mut acc);
    }
    if let Some(a) = txn.get_array(dump::ROOT_ARRAY) {
        obs_map_rec(txn, &Out::YArray(a), &mut acc);
    }
    if let Some(x) = txn.get_xml_fragment(dump::ROOT_XML) {
        obs_map_rec(txn, &Out::YXmlFragment(x), &mut acc);
    }
    acc
}

// ---- hooks ---------------------------------------------------------------------------------------

pub struct SeqPre {
    pub seq: Option<SeqObs>,
}

thread_local! {
    static PRE_SEQ: std::cell::RefCell<Option<SeqObs>> = std::cell::RefCell::new(None);
}

pub fn set_pre(o: SeqObs) {
    PRE_SEQ.with(|p| *p.borrow_mut() = Some(o));
}

pub fn pre_txn(w: &mut World, n: usize, _p: &mut Pre) {
    match w.cfg.profile.as_str() {
        "seq" | "gap" => {
            let o = observe_seq(&w.nodes[n].doc.transact());
            PRE_SEQ.with(|p| *p.borrow_mut() = Some(o));
        }
        "lww" => {
            w.mon.sp.seq.cur_writes.clear();
        }
        _ => crate::anchors::pre_txn(w, n),
    }
}

/// per-op hook at the origin, inside the transaction: placement (C04) and write attribution (C05)
pub fn around_op(w_profile: &str, st: &mut SeqState, txn: &mut yrs::TransactionMut, op: &Op) {
    match w_profile {
        "seq" | "sticky" | "weak" => {
            let tgt = op.target().clone();
            let before = list_of(txn, &tgt);
            ops::exec_op(txn, op);
            let after = list_of(txn, &tgt);
            if let (Some(b), Some(a)) = (before, after) {
                if let Some(e) = placement(op, &b, &a) {
                    if st.placement_err.is_none() {
                        st.placement_err = Some(e);
                    }
                }
            }
        }
        "lww" => {
            // which keys does the op write? (a clear writes every key present before it)
            let tgt = op.target().clone();
            let keys_before: Vec<String> = match ops::resolve_any(txn, &tgt) {
                Some((ptr, Kind::Map)) => MapRef::from(ptr).keys(txn).map(|k| k.to_string()).collect(),
                _ => vec![],
            };
            let alive = ops::resolve_any(txn, &tgt).is_some();
            ops::exec_op(txn, op);
            if !alive {
                return;
            }
            match op {
                Op::MSet { key, .. } | Op::MUpdate { key, .. } => {
                    if let Some((ptr, Kind::Map)) = ops::resolve_any(txn, &tgt) {
                        if let Some(v) = MapRef::from(ptr).get(txn, key) {
                            let id = value_id(txn, &v);
                            st.cur_writes.push((tgt, key.clone(), WKind::Set(id), nested_tgt(&v)));
                        } else if st.placement_err.is_none() {
                            // a local write causally follows everything the replica holds
                            st.placement_err = Some(format!("key {:?} of {:?} is absent right after this replica wrote it ({:?})", key, tgt, op));
                        }
                    }
                }
                Op::MRemove { key, .. } => {
                    if keys_before.contains(key) {
                        st.cur_writes.push((tgt, key.clone(), WKind::Remove, None));
                    }
                }
                Op::MClear { .. } => {
                    for k in keys_before {
                        st.cur_writes.push((tgt.clone(), k, WKind::Remove, None));
                    }
                }
                Op::XAttrSet { key, k: Kind::XmlElement, .. } => {
                    if let Some((ptr, Kind::XmlElement)) = ops::resolve_any(txn, &tgt) {
                        if let Some(v) = XmlElementRef::from(ptr).get_attribute(txn, key) {
                            let id = value_id(txn, &v);
                            st.cur_writes.push((tgt, key.clone(), WKind::Set(id), None));
                        } else if st.placement_err.is_none() {
                            st.placement_err = Some(format!("attribute {:?} of {:?} is absent right after this replica wrote it ({:?})", key, tgt, op));
                        }
                    }
                }
                Op::XAttrRemove { key, k: Kind::XmlElement, .. } => {
                    st.cur_writes.push((tgt, key.clone(), WKind::Remove, None));
                }
                _ => {}
            }
        }
        _ => {
            ops::exec_op(txn, op);
        }
    }
}

fn val_tag(v: &Val) -> Option<Tag> {
    match v {
        Val::Int(i) => Some(Tag::I(*i)),
        _ => None,
    }
}

/// expected list after a local op, given the list before it; Some(message) on mismatch
fn placement(op: &Op, before: &[Tag], after: &[Tag]) -> Option<String> {
    let len = before.len();
    let mut expect: Vec<Option<Tag>> = before.iter().cloned().map(Some).collect();
    match op {
        Op::TInsert { pos, s, .. } => {
            let p = (*pos as usize) % (len + 1);
            for (i, c) in s.chars().enumerate() {
                expect.insert(p + i, Some(Tag::C(c)));
            }
        }
        Op::TPush { s, .. } => {
            for c in s.chars() {
                expect.push(Some(Tag::C(c)));
            }
        }
        Op::TRemove { pos, len: l, .. } | Op::ARemove { pos, len: l, .. } | Op::XRemove { pos, len: l, .. } => {
            // text positions are in units incl. embeds; this profile generates no embeds
            if len > 0 {
                let p = (*pos as usize) % len;
                let n = (*l as usize).max(1).min(len - p);
                expect.drain(p..p + n);
            }
        }
        Op::AInsert { pos, vals, .. } => {
            let p = (*pos as usize) % (len + 1);
            for (i, v) in vals.iter().enumerate() {
                expect.insert(p + i, val_tag(v));
            }
        }
        Op::APush { front, v, .. } => {
            if *front {
                expect.insert(0, val_tag(v));
            } else {
                expect.push(val_tag(v));
            }
        }
        Op::XInsert { pos, .. } => {
            let p = (*pos as usize) % (len + 1);
            expect.insert(p, None);
        }
        _ => {}
    }
    let ok = expect.len() == after.len()
        && expect.iter().zip(after.iter()).all(|(e, a)| match e {
            Some(t) => t == a,
            // a freshly created nested type: its identity is only known now, it must be new
            None => matches!(a, Tag::N(_)) && !before.contains(a),
        });
    if ok {
        None
    } else {
        Some(format!(
            "local op {:?} on a sequence showing {:?} left it as {:?} (expected {:?}, '_' = the new nested element)",
            op,
            before,
            after,
            expect.iter().map(|e| e.clone().map(|t| format!("{:?}", t)).unwrap_or("_".into())).collect::<Vec<_>>()
        ))
    }
}

pub fn post_txn(w: &mut World, n: usize, kind: &TxnKind, uid: Option<usize>, _pre: &Pre, _ops: &[Op]) -> VResult {
    match w.cfg.profile.as_str() {
        "seq" => post_seq(w, n, kind, uid),
        // C02 "never loses": the element tracker of C04 rides along (an element that the library
        // drops and then reports as deleted to everybody is invisible to the reference oracle)
        "gap" => {
            let obs = observe_seq(&w.nodes[n].doc.transact());
            attribute_seq(w, n, kind, uid, &obs);
            check_seq_state(w, n, &obs, "gap")
        }
        "lww" => post_lww(w, n, kind, uid),
        _ => crate::anchors::post_txn(w, n, kind, uid),
    }
}

fn post_seq(w: &mut World, n: usize, kind: &TxnKind, uid: Option<usize>) -> VResult {
    w.stats.oracle_evals += 1;
    if let Some(e) = w.mon.sp.seq.placement_err.take() {
        return Err(viol("seq.placement", format!("node {}: {}", n, e)));
    }
    let obs = observe_seq(&w.nodes[n].doc.transact());
    attribute_seq(w, n, kind, uid, &obs);
    check_seq_state(w, n, &obs, "seq")
}

/// attribution at the origin: what a local transaction made appear / disappear
pub fn attribute_seq(w: &mut World, _n: usize, kind: &TxnKind, uid: Option<usize>, obs: &SeqObs) {
    if let (TxnKind::Local, Some(u)) = (kind, uid) {
        let pre: SeqObs = PRE_SEQ.with(|p| p.borrow_mut().take()).unwrap_or_default();
        let mut was: HashSet<Tag> = HashSet::new();
        for (_, v) in pre.iter() {
            for t in v {
                was.insert(t.clone());
            }
        }
        let mut is: HashSet<Tag> = HashSet::new();
        for (c, v) in obs.iter() {
            for t in v {
                is.insert(t.clone());
                if !was.contains(t) && !w.mon.sp.seq.ins.contains_key(t) {
                    w.mon.sp.seq.ins.insert(t.clone(), u);
                    w.mon.sp.seq.parent.insert(t.clone(), c.clone());
                }
            }
        }
        for t in was.iter() {
            if !is.contains(t) {
                w.mon.sp.seq.del.entry(t.clone()).or_default().push(u);
            }
        }
    }
}

fn expected_visible(st: &SeqState, t: &Tag, cov: &BitSet, depth: u32) -> bool {
    let Some(u) = st.ins.get(t) else { return false };
    if !cov.contains(*u) {
        return false;
    }
    if let Some(ds) = st.del.get(t) {
        if ds.iter().any(|d| cov.contains(*d)) {
            return false;
        }
    }
    match st.parent.get(t) {
        Some(Tgt::R(_)) | None => true,
        Some(c @ Tgt::N(_, _)) => depth < 16 && expected_visible(st, &Tag::N(c.clone()), cov, depth + 1),
    }
}

pub fn check_seq_state(w: &mut World, n: usize, obs: &SeqObs, prof: &str) -> VResult {
    // 1. no element twice; 2. run-global pairwise order
    let mut visible: HashSet<Tag> = HashSet::new();
    for (c, v) in obs.iter() {
        let mut seen: HashSet<&Tag> = HashSet::new();
        for t in v {
            if !seen.insert(t) || !visible.insert(t.clone()) {
                return Err(viol(
                    &format!("{}.dup", prof),
                    format!("node {}: element {:?} is visible more than once ({:?}: {:?})", n, t, c, v),
                ));
            }
        }
        if v.len() <= 80 {
            let rel = w.mon.sp.seq.before.entry(c.clone()).or_default();
            for i in 0..v.len() {
                for j in (i + 1)..v.len() {
                    if rel.contains(&(v[j].clone(), v[i].clone())) {
                        return Err(viol(
                            &format!("{}.order", prof),
                            format!(
                                "node {}: {:?} shows {:?} before {:?}, but some replica state of this run showed them in the opposite order (state: {:?})",
                                n, c, v[i], v[j], v
                            ),
                        ));
                    }
                    rel.insert((v[i].clone(), v[j].clone()));
                }
            }
        }
    }
    // 3. never visible once a deletion of it has been received
    let lo = w.nodes[n].lo.clone();
    for t in visible.iter() {
        if let Some(ds) = w.mon.sp.seq.del.get(t) {
            if let Some(d) = ds.iter().find(|d| lo.contains(**d)) {
                return Err(viol(
                    &format!("{}.resurrected", prof),
                    format!("node {}: element {:?} is visible although update u{} that deleted it has been received", n, t, d),
                ));
            }
        }
    }
    // 4. exactly the elements whose insertion was received and no deletion of them or of an ancestor
    if w.exact(n) && w.closed(&lo) && !has_missing(&w.nodes[n].doc) {
        w.stats.closed_checks += 1;
        let st = &w.mon.sp.seq;
        for t in st.ins.keys() {
            let exp = expected_visible(st, t, &lo, 0);
            let vis = visible.contains(t);
            if exp != vis {
                return Err(viol(
                    &format!("{}.presence", prof),
                    format!(
                        "node {} holds closed set {:?}: element {:?} (inserted by u{}, deleted by {:?}, container {:?}) is {} but should be {}",
                        n,
                        lo.to_vec(),
                        t,
                        st.ins[t],
                        st.del.get(t),
                        st.parent.get(t),
                        if vis { "visible" } else { "not visible" },
                        if exp { "visible" } else { "not visible" }
                    ),
                ));
            }
        }
    }
    Ok(())
}

// ---- C05 -----------------------------------------------------------------------------------------

fn post_lww(w: &mut World, n: usize, kind: &TxnKind, uid: Option<usize>) -> VResult {
    w.stats.oracle_evals += 1;
    if let Some(e) = w.mon.sp.seq.placement_err.take() {
        return Err(viol("lww.local-write-lost", format!("node {}: {}", n, e)));
    }
    if let (TxnKind::Local, Some(u)) = (kind, uid) {
        let cur = std::mem::take(&mut w.mon.sp.seq.cur_writes);
        for (k, (map, key, wk, nested)) in cur.into_iter().enumerate() {
            w.mon.sp.seq.writes.push(Write {
                uid: u,
                k,
                map,
                key,
                kind: wk,
                nested,
            });
        }
    }
    w.mon.sp.seq.cur_writes.clear();
    // same set => same state
    crate::monitors::check_closed_as(w, n, "lww")?;
    if !w.exact(n) {
        return Ok(());
    }
    let cov = w.nodes[n].lo.clone();
    if !w.closed(&cov) || has_missing(&w.nodes[n].doc) {
        return Ok(());
    }
    let obs = observe_maps(&w.nodes[n].doc.transact());
    // happened-before between writes: a -> b iff same update and earlier, or b's author had seen a's update
    let hb = |w: &World, a: &Write, b: &Write| -> bool {
        if a.uid == b.uid {
            a.k < b.k
        } else {
            w.uids[b.uid].seen.contains(a.uid)
        }
    };
    let mut groups: BTreeMap<(Tgt, String), Vec<usize>> = BTreeMap::new();
    for (i, wr) in w.mon.sp.seq.writes.iter().enumerate() {
        if cov.contains(wr.uid) {
            groups.entry((wr.map.clone(), wr.key.clone())).or_default().push(i);
        }
    }
    let mut probes: Vec<&'static str> = Vec::new();
    for ((map, key), idx) in groups.iter() {
        let Some(entries) = obs.get(map) else { continue }; // map not reachable (deleted or parent deleted)
        let ws: Vec<&Write> = idx.iter().map(|i| &w.mon.sp.seq.writes[*i]).collect();
        let maximal: Vec<&Write> = ws.iter().filter(|a| !ws.iter().any(|b| hb(w, a, b))).cloned().collect();
        let present = entries.get(key);
        if maximal.len() > 1 {
            probes.push("lww.key-with-concurrent-maximal-writes");
        }
        match present {
            Some(v) => {
                let from_max = maximal.iter().any(|m| m.kind == WKind::Set(v.clone()));
                if !from_max {
                    let known = ws.iter().any(|m| m.kind == WKind::Set(v.clone()));
                    return Err(viol(
                        if known { "lww.resurfaced" } else { "lww.unknown-value" },
                        format!(
                            "node {} (closed set {:?}): {:?}[{:?}] = {} but the writes no other received write on that key causally follows are {:?}",
                            n,
                            cov.to_vec(),
                            map,
                            key,
                            v,
                            maximal.iter().map(|m| (m.uid, &m.kind)).collect::<Vec<_>>()
                        ),
                    ));
                }
            }
            None => {
                if !maximal.iter().any(|m| m.kind == WKind::Remove) {
                    return Err(viol(
                        "lww.lost",
                        format!(
                            "node {} (closed set {:?}): {:?}[{:?}] is absent but every maximal write on it is a set: {:?}",
                            n,
                            cov.to_vec(),
                            map,
                            key,
                            maximal.iter().map(|m| (m.uid, &m.kind)).collect::<Vec<_>>()
                        ),
                    ));
                }
            }
        }
        // a write concurrent with a removal survives it (where YATA guarantees it: the only
        // maximal set had seen everything the maximal removals had seen on that key)
        // `hb` is a lower bound of happened-before (what the author can be proven to have seen);
        // this clause needs the other direction too: `maybe` is the upper bound (everything the
        // author may have held when it emitted).
        let maybe = |w: &World, a: &Write, b: &Write| -> bool {
            if a.uid == b.uid {
                a.k < b.k
            } else {
                w.uids[b.uid].deps.contains(a.uid)
            }
        };
        let sets: Vec<&&Write> = maximal.iter().filter(|m| matches!(m.kind, WKind::Set(_))).collect();
        if sets.len() == 1 && maximal.len() > 1 {
            let wset = sets[0];
            // the set is certainly maximal and certainly concurrent with the removals ...
            let certainly_max = !ws.iter().any(|b| maybe(w, wset, b));
            // ... and had certainly seen every value a maximal removal may have removed
            let covered = maximal.iter().filter(|m| m.kind == WKind::Remove).all(|r| {
                ws.iter().filter(|s| matches!(s.kind, WKind::Set(_)) && maybe(w, s, r)).all(|s| hb(w, s, wset))
            });
            if certainly_max && covered {
                probes.push("lww.concurrent-remove-evaluated");
                if let WKind::Set(v) = &wset.kind {
                    if present != Some(v) {
                        return Err(viol(
                            "lww.concurrent-remove",
                            format!(
                                "node {} (closed set {:?}): {:?}[{:?}] shows {:?}; the write {} by u{} is concurrent with the removals and had seen every value they removed, so it should survive",
                                n,
                                cov.to_vec(),
                                map,
                                key,
                                present,
                                v,
                                wset.uid
                            ),
                        ));
                    }
                }
            }
        }
        // subtree clause: a nested type whose write has been causally overwritten / removed is gone
        for a in ws.iter() {
            if let Some(t) = &a.nested {
                if ws.iter().any(|b| hb(w, a, b)) {
                    probes.push("lww.subtree-evaluated");
                    let txn = w.nodes[n].doc.transact();
                    if ops::resolve_any(&txn, t).is_some() {
                        return Err(viol(
                            "lww.subtree",
                            format!(
                                "node {}: nested type {:?} written to {:?}[{:?}] by u{} was overwritten or removed by a later received write, but is still alive",
                                n, t, map, key, a.uid
                            ),
                        ));
                    }
                }
            }
        }
    }
    for p in probes {
        w.probe(p);
    }
    Ok(())
}

pub fn at_quiescence(w: &mut World) -> VResult {
    match w.cfg.profile.as_str() {
        "seq" | "lww" => {
            for n in 0..w.nodes.len() {
                post_txn(w, n, &TxnKind::Gc, None, &Pre::default(), &[])?;
            }
            Ok(())
        }
        _ => crate::anchors::at_quiescence(w),
    }
}

pub fn draw(w: &mut World) -> Option<Ev> {
    crate::anchors::draw(w)
}

pub fn exec(w: &mut World, n: usize, k: &str, a: &[u64], s: &[String]) -> VResult {
    crate::anchors::exec(w, n, k, a, s)
}
