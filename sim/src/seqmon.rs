//! Element-tracker profiles (C04 seq, C05 lww, C14 sticky, C20 weak, C11 events, C12 undo, C13 snap).

use crate::monitors::{Pre, TxnKind};
use crate::ops::Op;
use crate::world::*;

pub struct SeqState {}

impl SeqState {
    pub fn new(_cfg: &RunCfg, _nodes: &[Node]) -> SeqState {
        SeqState {}
    }
}

pub fn pre_txn(_w: &mut World, _n: usize, _p: &mut Pre) {}

pub fn post_txn(_w: &mut World, _n: usize, _kind: &TxnKind, _uid: Option<usize>, _pre: &Pre, _ops: &[Op]) -> VResult {
    Ok(())
}

pub fn at_quiescence(_w: &mut World) -> VResult {
    Ok(())
}

pub fn draw(_w: &mut World) -> Option<Ev> {
    None
}

pub fn exec(_w: &mut World, _n: usize, _k: &str, _a: &[u64], _s: &[String]) -> VResult {
    Ok(())
}
