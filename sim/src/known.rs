//! /verif/known_findings.json — genuine defects recorded rather than repaired (DESIGN.md §7).
//! The file is never written at run time. A `finding` suppresses exactly the violations its
//! matcher describes; a `fixed` entry suppresses nothing.

use crate::world::{RunCfg, TraceEv, Violation};
use serde::{Deserialize, Serialize};

#[derive(Serialize, Deserialize, Clone, Debug, Default)]
pub struct Finding {
    pub id: String,
    pub property: String,
    /// oracle id that must match exactly
    pub oracle: String,
    /// all of these substrings must occur in the violation message
    #[serde(default)]
    pub msg_contains: Vec<String>,
    /// named structural predicate over the failing run (implemented in `pred`)
    #[serde(default)]
    pub pred: Option<String>,
    pub what: String,
}

#[derive(Serialize, Deserialize, Clone, Debug, Default)]
pub struct KnownFile {
    #[serde(default)]
    pub findings: Vec<Finding>,
    #[serde(default)]
    pub fixed: Vec<String>,
}

pub fn load(verif_dir: &str) -> KnownFile {
    let path = format!("{}/known_findings.json", verif_dir);
    match std::fs::read_to_string(&path) {
        Ok(t) => serde_json::from_str(&t).unwrap_or_else(|e| {
            eprintln!("HARNESS-ERROR: cannot parse {}: {}", path, e);
            std::process::exit(2);
        }),
        Err(_) => KnownFile::default(),
    }
}

pub fn match_finding<'a>(
    kf: &'a KnownFile,
    property: &str,
    v: &Violation,
    cfg: Option<&RunCfg>,
    trace: Option<&[TraceEv]>,
) -> Option<&'a Finding> {
    kf.findings.iter().find(|f| {
        f.property == property
            && f.oracle == v.oracle
            && f.msg_contains.iter().all(|s| v.msg.contains(s.as_str()))
            && match &f.pred {
                None => true,
                Some(p) => pred(p, v, cfg, trace),
            }
    })
}

fn pred(name: &str, v: &Violation, cfg: Option<&RunCfg>, trace: Option<&[TraceEv]>) -> bool {
    let _ = (v, cfg);
    match name {
        // F11: some captured ("user") transaction writes the same map key / attribute twice
        // (set+set, set+remove, clear+set ...) before the failing undo/redo
        "same-key-twice-in-tracked-txn" => {
            use crate::ops::Op;
            use crate::world::Ev;
            let Some(trace) = trace else { return false };
            // keys written so far in the current capture step (a step ends when the simulated
            // clock advances by >= the capture timeout, on reset/clear and on undo/redo)
            let mut seen: Vec<(crate::ops::Tgt, Option<String>)> = Vec::new();
            for t in trace.iter() {
                match &t.ev {
                    Ev::Special { k, a, .. } => {
                        let ends = match k.as_str() {
                            "clock" => a.first().copied().unwrap_or(0) >= 500,
                            "undo" | "redo" | "undo-reset" | "undo-clear" => true,
                            _ => false,
                        };
                        if ends {
                            seen.clear();
                        }
                    }
                    Ev::Txn { origin: Some(o), ops, .. } if o == "user" => {
                        for op in ops {
                            let k = match op {
                                Op::MSet { t, key, .. } | Op::MUpdate { t, key, .. } | Op::MRemove { t, key } => Some((t.clone(), Some(key.clone()))),
                                Op::XAttrSet { t, key, .. } | Op::XAttrRemove { t, key, .. } => Some((t.clone(), Some(key.clone()))),
                                Op::MClear { t } => Some((t.clone(), None)),
                                _ => None,
                            };
                            if let Some((t, key)) = k {
                                if seen.iter().any(|(st, sk)| *st == t && (sk.is_none() || key.is_none() || *sk == key)) {
                                    return true;
                                }
                                seen.push((t, key));
                            }
                        }
                    }
                    _ => {}
                }
            }
            false
        }
        _ => false,
    }
}
