//! A *cell* is one simulated execution in a forked child process (DESIGN.md §2.1).
//!
//! The child switches the allocator to the fixed-address arena, seeds the interposed `getrandom`,
//! runs the body on a fresh thread (fresh TLS => fresh `RandomState` keys drawn through our
//! `getrandom`), writes the body's result bytes to a pipe and `_exit`s. Panics are caught and
//! reported; signals (SIGSEGV, SIGABRT, SIGALRM for hangs) are reported by the parent.

use crate::arena;
use crate::rng::splitmix64;
use std::sync::atomic::{AtomicU64, Ordering};
use std::sync::Mutex;

extern "C" {
    fn fork() -> i32;
    fn pipe(fds: *mut i32) -> i32;
    fn read(fd: i32, buf: *mut u8, n: usize) -> isize;
    fn write(fd: i32, buf: *const u8, n: usize) -> isize;
    fn close(fd: i32) -> i32;
    fn waitpid(pid: i32, status: *mut i32, options: i32) -> i32;
    fn _exit(code: i32) -> !;
    fn alarm(secs: u32) -> u32;
    fn setrlimit(resource: i32, rlim: *const [u64; 2]) -> i32;
}

static GR_STATE: AtomicU64 = AtomicU64::new(0x5EED_0000_0000_0001);

/// Interposed `getrandom(2)`: std resolves this symbol weakly (the binary is linked with
/// `-rdynamic`), so `RandomState` keys become a function of the cell seed.
#[no_mangle]
pub unsafe extern "C" fn getrandom(buf: *mut u8, len: usize, _flags: u32) -> isize {
    let mut i = 0;
    while i < len {
        let mut s = GR_STATE.load(Ordering::Relaxed);
        let v = splitmix64(&mut s);
        GR_STATE.store(s, Ordering::Relaxed);
        let bytes = v.to_le_bytes();
        let mut k = 0;
        while k < 8 && i < len {
            *buf.add(i) = bytes[k];
            i += 1;
            k += 1;
        }
    }
    len as isize
}

pub fn seed_getrandom(seed: u64) {
    GR_STATE.store(seed ^ 0xC3A5_C85C_97CB_3127, Ordering::SeqCst);
}

#[derive(Clone, Copy, Debug)]
pub struct Limits {
    pub wall_secs: u32,
    pub cpu_secs: u64,
    pub cap_live: usize,
    pub cap_single: usize,
    pub stack: usize,
}

impl Default for Limits {
    fn default() -> Self {
        Limits {
            wall_secs: 30,
            cpu_secs: 20,
            cap_live: 2 << 30,
            cap_single: 1 << 30,
            stack: 2 << 20,
        }
    }
}

#[derive(Clone, Debug, PartialEq, Eq)]
pub enum CellStatus {
    /// body returned (its bytes are in `payload`)
    Done,
    /// body panicked: message with location
    Panic(String),
    /// child killed by signal
    Signal(i32),
    /// child exited without delivering a result
    Broken(String),
}

pub struct CellOutcome {
    pub status: CellStatus,
    pub payload: Vec<u8>,
    pub alloc: arena::Stats,
}

static PANIC_MSG: Mutex<Option<String>> = Mutex::new(None);

pub fn take_panic_msg() -> Option<String> {
    PANIC_MSG.lock().ok().and_then(|mut g| g.take())
}

fn install_panic_hook() {
    std::panic::set_hook(Box::new(|info| {
        let loc = info
            .location()
            .map(|l| format!("{}:{}", l.file(), l.line()))
            .unwrap_or_default();
        let msg = if let Some(s) = info.payload().downcast_ref::<&str>() {
            s.to_string()
        } else if let Some(s) = info.payload().downcast_ref::<String>() {
            s.clone()
        } else {
            "<non-string panic>".to_string()
        };
        if let Ok(mut g) = PANIC_MSG.lock() {
            let mut m = format!("{} @ {}", msg, loc);
            if crate::arena::BT.load(std::sync::atomic::Ordering::Relaxed) {
                let bt = std::backtrace::Backtrace::force_capture().to_string();
                for l in bt.lines().filter(|l| l.contains("yrs::") || l.contains("/repo/yrs")) {
                    m.push('\n');
                    m.push_str(l.trim());
                }
            }
            *g = Some(m);
        }
    }));
}

unsafe fn write_all(fd: i32, mut data: &[u8]) {
    while !data.is_empty() {
        let n = write(fd, data.as_ptr(), data.len());
        if n <= 0 {
            break;
        }
        data = &data[n as usize..];
    }
}

/// Runs `body` in a forked child. The result wire format is:
/// 1 tag byte ('D' done / 'P' panic) + 5 u64 allocator stats + payload bytes.
pub fn run_cell<F>(seed: u64, limits: Limits, body: F) -> CellOutcome
where
    F: FnOnce() -> Vec<u8> + Send,
{
    unsafe {
        let mut fds = [0i32; 2];
        if pipe(fds.as_mut_ptr()) != 0 {
            return CellOutcome {
                status: CellStatus::Broken("pipe failed".into()),
                payload: vec![],
                alloc: Default::default(),
            };
        }
        let pid = fork();
        if pid < 0 {
            close(fds[0]);
            close(fds[1]);
            return CellOutcome {
                status: CellStatus::Broken("fork failed".into()),
                payload: vec![],
                alloc: Default::default(),
            };
        }
        if pid == 0 {
            // ---- child ----
            close(fds[0]);
            let wfd = fds[1];
            alarm(limits.wall_secs);
            let rl = [limits.cpu_secs, limits.cpu_secs + 1];
            setrlimit(0 /* RLIMIT_CPU */, &rl);
            seed_getrandom(seed);
            arena::enable(seed, limits.cap_live, limits.cap_single);
            install_panic_hook();
            let mut out: Vec<u8> = Vec::new();
            let res = std::thread::scope(|s| {
                std::thread::Builder::new()
                    .stack_size(limits.stack)
                    .spawn_scoped(s, move || {
                        std::panic::catch_unwind(std::panic::AssertUnwindSafe(body))
                    })
                    .expect("spawn")
                    .join()
            });
            let st = arena::stats();
            match res {
                Ok(Ok(bytes)) => {
                    out.push(b'D');
                    push_stats(&mut out, &st);
                    out.extend_from_slice(&bytes);
                }
                _ => {
                    out.push(b'P');
                    push_stats(&mut out, &st);
                    let msg = PANIC_MSG
                        .lock()
                        .ok()
                        .and_then(|g| g.clone())
                        .unwrap_or_else(|| "panic".to_string());
                    out.extend_from_slice(msg.as_bytes());
                }
            }
            write_all(wfd, &out);
            close(wfd);
            _exit(0);
        }
        // ---- parent ----
        close(fds[1]);
        let mut data = Vec::new();
        let mut buf = [0u8; 65536];
        loop {
            let n = read(fds[0], buf.as_mut_ptr(), buf.len());
            if n > 0 {
                data.extend_from_slice(&buf[..n as usize]);
            } else if n == 0 {
                break;
            } else {
                // EINTR etc.: retry
                let e = std::io::Error::last_os_error();
                if e.kind() == std::io::ErrorKind::Interrupted {
                    continue;
                }
                break;
            }
        }
        close(fds[0]);
        let mut status = 0i32;
        loop {
            let r = waitpid(pid, &mut status, 0);
            if r == pid {
                break;
            }
            if r < 0 {
                let e = std::io::Error::last_os_error();
                if e.kind() == std::io::ErrorKind::Interrupted {
                    continue;
                }
                break;
            }
        }
        let signaled = (status & 0x7f) != 0;
        if signaled {
            return CellOutcome {
                status: CellStatus::Signal(status & 0x7f),
                payload: vec![],
                alloc: Default::default(),
            };
        }
        if data.len() < 41 {
            return CellOutcome {
                status: CellStatus::Broken(format!(
                    "short result ({} bytes), exit status {}",
                    data.len(),
                    (status >> 8) & 0xff
                )),
                payload: vec![],
                alloc: Default::default(),
            };
        }
        let alloc = pop_stats(&data[1..41]);
        let payload = data[41..].to_vec();
        match data[0] {
            b'D' => CellOutcome {
                status: CellStatus::Done,
                payload,
                alloc,
            },
            _ => CellOutcome {
                status: CellStatus::Panic(String::from_utf8_lossy(&payload).to_string()),
                payload: vec![],
                alloc,
            },
        }
    }
}

fn push_stats(out: &mut Vec<u8>, st: &arena::Stats) {
    for v in [
        st.peak as u64,
        st.live as u64,
        st.max_req as u64,
        st.n_alloc,
        st.refused,
    ] {
        out.extend_from_slice(&v.to_le_bytes());
    }
}

fn pop_stats(b: &[u8]) -> arena::Stats {
    let g = |i: usize| u64::from_le_bytes(b[i * 8..i * 8 + 8].try_into().unwrap());
    arena::Stats {
        peak: g(0) as usize,
        live: g(1) as usize,
        max_req: g(2) as usize,
        n_alloc: g(3),
        refused: g(4),
    }
}

pub fn signal_name(sig: i32) -> &'static str {
    match sig {
        4 => "SIGILL",
        6 => "SIGABRT",
        7 => "SIGBUS",
        8 => "SIGFPE",
        9 => "SIGKILL",
        11 => "SIGSEGV",
        14 => "SIGALRM(hang)",
        24 => "SIGXCPU(hang)",
        _ => "signal",
    }
}
