//! One simulated run (the body of a cell): generate-and-execute, or replay of an explicit trace.

use crate::dump::hash64;
use crate::profile;
use crate::rng::Rng;
use crate::world::*;
use serde::{Deserialize, Serialize};

#[derive(Serialize, Deserialize, Clone, Debug)]
pub struct RunOutput {
    pub violation: Option<Violation>,
    pub stats: Stats,
    /// hash of the event sequence (kinds, actors, message ids): the run's signature
    pub signature: u64,
    /// hash over all final dumps
    pub final_hash: u64,
    pub nontrivial: bool,
    /// only filled for failing runs or when asked for
    pub cfg: Option<RunCfg>,
    pub trace: Option<Vec<TraceEv>>,
}

#[derive(Serialize, Deserialize, Clone, Debug)]
pub struct ReplayFile {
    pub property: String,
    pub profile: String,
    pub tier: String,
    pub cell_seed: u64,
    pub cfg: RunCfg,
    pub trace: Vec<TraceEv>,
    pub expect: Violation,
    #[serde(default)]
    pub note: String,
}

fn signature(trace: &[TraceEv]) -> u64 {
    let mut s = String::new();
    for t in trace {
        s.push_str(t.ev.kind());
        match &t.ev {
            Ev::Txn { n, ops, .. } => {
                s.push_str(&format!("{}:", n));
                for o in ops {
                    s.push_str(o.name());
                    s.push(',');
                }
            }
            Ev::Deliver { m } | Ev::Dup { m } | Ev::Drop { m } | Ev::Hold { m } => {
                s.push_str(&format!("{}.{}", m.0, m.1));
            }
            Ev::SyncReq { from, to } => s.push_str(&format!("{}>{}", from, to)),
            Ev::SyncAns { req, full, .. } => s.push_str(&format!("{}.{}{}", req.0, req.1, full)),
            Ev::Gc { n } => s.push_str(&format!("{}", n)),
            Ev::Special { n, k, .. } => s.push_str(&format!("{}{}", n, k)),
        }
        s.push(';');
    }
    hash64(&s)
}

fn faults_fired(s: &Stats) -> u64 {
    s.f_dup
        + s.f_drop
        + s.f_hold
        + s.f_reorder
        + s.f_stale_sv
        + s.f_misroute
        + s.f_partition
        + s.f_transcode
        + s.f_crash
        + s.f_gc
        + s.f_relay
        + s.f_clock
}

fn catch<F: FnOnce() -> R, R>(f: F) -> Result<R, String> {
    match std::panic::catch_unwind(std::panic::AssertUnwindSafe(f)) {
        Ok(r) => Ok(r),
        Err(e) => {
            let msg = if let Some(s) = e.downcast_ref::<&str>() {
                s.to_string()
            } else if let Some(s) = e.downcast_ref::<String>() {
                s.clone()
            } else {
                "<panic>".to_string()
            };
            Err(crate::cell::take_panic_msg().unwrap_or(msg))
        }
    }
}

fn final_dump(w: &World) {
    // printed after the fact, so that the execution before the violation is not perturbed
    for (i, n) in w.nodes.iter().enumerate() {
        let txn = yrs::Transact::transact(&n.doc);
        eprintln!(
            "-- node {} (client {}) lo={:?} missing={}\n{}{}   dump: {}",
            i,
            n.cfg.client_id,
            n.lo.to_vec(),
            yrs::ReadTxn::has_missing_updates(&txn),
            yrs::verif::blocks_dump(yrs::ReadTxn::store(&txn)),
            yrs::verif::sequences_dump(yrs::ReadTxn::store(&txn)),
            crate::dump::dump_doc(&txn)
        );
    }
    for (i, u) in w.uids.iter().enumerate() {
        eprintln!("-- u{} by node {} primary={} deps={:?}: {:?}", i, u.node, u.primary, u.deps.to_vec(), decode(&u.payload, Enc::V1));
    }
}

fn finish(mut w: World, mut violation: Option<Violation>, full: bool) -> RunOutput {
    if violation.is_none() {
        let profile = w.cfg.profile.clone();
        match catch(|| w.quiesce()) {
            Ok(Ok(())) => {}
            Ok(Err(v)) => violation = Some(v),
            Err(p) => {
                violation = Some(Violation {
                    oracle: format!("{}.panic", profile),
                    msg: format!("library panicked during quiescence: {}", p),
                    at_eid: u32::MAX,
                })
            }
        }
    }
    if violation.is_none() && !w.soft.is_empty() {
        violation = Some(w.soft[0].clone());
    }
    if violation.is_some() && crate::arena::FINAL.load(std::sync::atomic::Ordering::Relaxed) {
        crate::arena::outside(|| final_dump(&w));
    }
    let mut fh = String::new();
    if violation.is_none() {
        for n in w.nodes.iter() {
            fh.push_str(&doc_dump(&n.doc));
            fh.push('#');
        }
    }
    let sig = signature(&w.trace);
    let nontrivial =
        faults_fired(&w.stats) >= 1 && w.stats.concurrent_pairs >= 1 && w.stats.oracle_evals >= 5;
    let keep = full || violation.is_some();
    RunOutput {
        violation,
        stats: w.stats.clone(),
        signature: sig,
        final_hash: hash64(&fh),
        nontrivial,
        cfg: if keep { Some(w.cfg.clone()) } else { None },
        trace: if keep { Some(w.trace.clone()) } else { None },
    }
}

pub fn run_generated(profile_name: &str, thorough: bool, cell_seed: u64, full: bool) -> RunOutput {
    let mut rng = Rng::new(cell_seed);
    let cfg = profile::draw_cfg(profile_name, thorough, &mut rng);
    let gseed = rng.next_u64();
    let mut w = World::new(cfg, gseed, crate::rng::mix(cell_seed, 0x51));
    let mut violation = None;
    loop {
        let r = catch(|| w.step());
        match r {
            Ok(Ok(true)) => continue,
            Ok(Ok(false)) => break,
            Ok(Err(v)) => {
                violation = Some(v);
                break;
            }
            Err(p) => {
                // the event that panicked: a generated transaction is recovered from cur_ops
                if let Some((n, origin)) = w.cur_txn.take() {
                    let eid = w.trace.len() as u32;
                    let ops = std::mem::take(&mut w.cur_ops);
                    w.trace.push(TraceEv {
                        eid,
                        ev: Ev::Txn { n, origin, ops },
                    });
                }
                let eid = w.trace.last().map(|t| t.eid).unwrap_or(0);
                violation = Some(Violation {
                    oracle: format!("{}.panic", profile_name),
                    msg: format!("library panicked under a valid workload: {}", p),
                    at_eid: eid,
                });
                break;
            }
        }
    }
    finish(w, violation, full)
}

pub fn run_replay(cfg: &RunCfg, cell_seed: u64, trace: &[TraceEv]) -> RunOutput {
    // the executor never draws from the generator stream; quiescence has its own stream, a
    // function of the cell seed only, so a replayed (and a shrunk) trace sees the same choices
    let mut w = World::new(cfg.clone(), 0, crate::rng::mix(cell_seed, 0x51));
    let mut violation = None;
    let verbose = crate::arena::verbose();
    for tev in trace {
        w.trace.push(tev.clone());
        if verbose {
            crate::arena::outside(|| eprintln!("==== event {}", serde_json::to_string(tev).unwrap()));
        }
        let r = catch(|| w.exec(tev));
        if crate::arena::ASTAT.load(std::sync::atomic::Ordering::Relaxed) {
            let st = crate::arena::stats();
            eprintln!("astat eid={} n_alloc={} live={} peak={}", tev.eid, st.n_alloc, st.live, st.peak);
        }
        if verbose {
            crate::arena::outside(|| for (i, n) in w.nodes.iter().enumerate() {
                let txn = yrs::Transact::transact(&n.doc);
                eprintln!("-- node {} (client {}) lo={:?} hi={:?} missing={}\n{}{}   dump: {}", i, n.cfg.client_id, n.lo.to_vec(), n.hi.to_vec(), yrs::ReadTxn::has_missing_updates(&txn), yrs::verif::blocks_dump(yrs::ReadTxn::store(&txn)), yrs::verif::sequences_dump(yrs::ReadTxn::store(&txn)), crate::dump::dump_doc(&txn));
            });
        }
        match r {
            Ok(Ok(())) => {}
            Ok(Err(v)) => {
                violation = Some(v);
                break;
            }
            Err(p) => {
                violation = Some(Violation {
                    oracle: format!("{}.panic", cfg.profile),
                    msg: format!("library panicked under a valid workload: {}", p),
                    at_eid: tev.eid,
                });
                break;
            }
        }
    }
    finish(w, violation, true)
}
