//! C10 — decoders are total on untrusted bytes (level: fault enumeration).
//!
//! The simulator contributes (a) the corpus: every kind of payload that simulated traffic produced,
//! (b) the operators a network or a disk applies to bytes, (c) the isolated, resource-metered cell.
//! A batch of mutated inputs is decoded in one cell whose allocator refuses anything beyond
//! 64 x input length + 1 MiB; if the batch cell dies, panics or hangs, its inputs are re-run one per
//! cell to find the culprit, which is reported with its bytes.

use crate::arena;
use crate::cell::{self, CellStatus, Limits};
use crate::driver::CellResult;
use crate::profile;
use crate::rng::Rng;
use crate::run::{ReplayFile, RunOutput};
use crate::world::*;
use serde::{Deserialize, Serialize};
use yrs::encoding::read::Cursor;
use yrs::sync::awareness::AwarenessUpdate;
use yrs::sync::protocol::MessageReader;
use yrs::sync::{Awareness, DefaultProtocol, Message, Protocol, SyncMessage};
use yrs::updates::decoder::{Decode, DecoderV1};
use yrs::updates::encoder::{Encode, Encoder, EncoderV1};
use yrs::{Any, IdSet, ReadTxn, Snapshot, StateVector, StickyIndex, Transact, Update};

pub const ENTRIES: &[&str] = &[
    "Update::decode_v1",
    "Update::decode_v2",
    "StateVector::decode_v1",
    "StateVector::decode_v2",
    "Snapshot::decode_v1",
    "Snapshot::decode_v2",
    "IdSet::decode_v1",
    "IdSet::decode_v2",
    "Any::decode",
    "Any::from_json",
    "StickyIndex::decode_v1",
    "StickyIndex(serde_json)",
    "MessageReader",
    "AwarenessUpdate::decode_v1",
    "merge_updates_v1",
    "merge_updates_v2",
    "diff_updates_v1",
    "diff_updates_v2",
    "encode_state_vector_from_update_v1",
    "encode_state_vector_from_update_v2",
    "Protocol::handle",
];

#[derive(Clone, Copy, Debug, PartialEq, Eq, Serialize, Deserialize)]
pub enum Kind {
    UpdateV1,
    UpdateV2,
    SvV1,
    SvV2,
    SnapV1,
    SnapV2,
    DsV1,
    DsV2,
    AnyBin,
    AnyJson,
    StickyBin,
    StickyJson,
    Messages,
    AwarenessV1,
}

fn entries_for(k: Kind) -> &'static [usize] {
    match k {
        Kind::UpdateV1 => &[0, 14, 16, 18],
        Kind::UpdateV2 => &[1, 15, 17, 19],
        Kind::SvV1 => &[2, 16],
        Kind::SvV2 => &[3, 17],
        Kind::SnapV1 => &[4],
        Kind::SnapV2 => &[5],
        Kind::DsV1 => &[6],
        Kind::DsV2 => &[7],
        Kind::AnyBin => &[8],
        Kind::AnyJson => &[9],
        Kind::StickyBin => &[10],
        Kind::StickyJson => &[11],
        Kind::Messages => &[12, 20],
        Kind::AwarenessV1 => &[13],
    }
}

#[derive(Clone, Debug, Serialize, Deserialize)]
pub struct Input {
    pub entry: usize,
    pub bytes: Vec<u8>,
    /// how it was made (operator name and arguments)
    pub how: String,
}

#[derive(Clone, Debug, Serialize, Deserialize)]
pub struct Outcome {
    pub ok: bool,
    pub peak: usize,
    pub max_req: usize,
    pub reencode_failed: bool,
}

const VALID_UPDATE_V1: &[u8] = &[1, 1, 9, 0, 4, 1, 1, 116, 1, 97, 0];

/// decodes one input at one entry point; Ok(true) = a value, Ok(false) = an error value
pub fn decode_entry(entry: usize, b: &[u8]) -> bool {
    match entry {
        0 => match Update::decode_v1(b) {
            Ok(u) => {
                let _ = u.encode_v1();
                let _ = u.encode_v2();
                let _ = format!("{:?}", u.state_vector());
                true
            }
            Err(_) => false,
        },
        1 => match Update::decode_v2(b) {
            Ok(u) => {
                let _ = u.encode_v1();
                let _ = u.encode_v2();
                true
            }
            Err(_) => false,
        },
        2 => StateVector::decode_v1(b).map(|s| s.encode_v1()).is_ok(),
        3 => StateVector::decode_v2(b).map(|s| s.encode_v2()).is_ok(),
        4 => Snapshot::decode_v1(b).map(|s| s.encode_v1()).is_ok(),
        5 => Snapshot::decode_v2(b).map(|s| s.encode_v2()).is_ok(),
        6 => IdSet::decode_v1(b).map(|s| s.encode_v1()).is_ok(),
        7 => IdSet::decode_v2(b).map(|s| s.encode_v2()).is_ok(),
        8 => {
            let mut c = Cursor::new(b);
            match Any::decode(&mut c) {
                Ok(a) => {
                    let mut out = Vec::new();
                    a.encode(&mut out);
                    let mut s = String::new();
                    a.to_json(&mut s);
                    true
                }
                Err(_) => false,
            }
        }
        9 => match std::str::from_utf8(b) {
            Ok(s) => match Any::from_json(s) {
                Ok(a) => {
                    let mut out = String::new();
                    a.to_json(&mut out);
                    true
                }
                Err(_) => false,
            },
            Err(_) => false,
        },
        10 => StickyIndex::decode_v1(b).map(|s| s.encode_v1()).is_ok(),
        11 => serde_json::from_slice::<StickyIndex>(b).map(|s| serde_json::to_string(&s)).is_ok(),
        12 => {
            let mut dec = DecoderV1::new(Cursor::new(b));
            let mut reader = MessageReader::new(&mut dec);
            let mut ok = true;
            let mut n = 0;
            while let Some(r) = reader.next() {
                match r {
                    Ok(m) => {
                        let mut e = EncoderV1::new();
                        m.encode(&mut e);
                    }
                    Err(_) => {
                        ok = false;
                        break;
                    }
                }
                n += 1;
                if n > 100_000 {
                    break;
                }
            }
            ok
        }
        13 => AwarenessUpdate::decode_v1(b).map(|u| u.encode_v1()).is_ok(),
        14 => yrs::merge_updates_v1([b, VALID_UPDATE_V1]).is_ok(),
        15 => {
            let valid = Update::decode_v1(VALID_UPDATE_V1).unwrap().encode_v2();
            yrs::merge_updates_v2([b, valid.as_slice()]).is_ok()
        }
        16 => {
            // the input is tried as the update and as the state vector
            let sv = StateVector::default().encode_v1();
            let a = yrs::diff_updates_v1(b, &sv).is_ok();
            let c = yrs::diff_updates_v1(VALID_UPDATE_V1, b).is_ok();
            a || c
        }
        17 => {
            let sv = StateVector::default().encode_v2();
            let valid = Update::decode_v1(VALID_UPDATE_V1).unwrap().encode_v2();
            let a = yrs::diff_updates_v2(b, &sv).is_ok();
            let c = yrs::diff_updates_v2(&valid, b).is_ok();
            a || c
        }
        18 => yrs::encode_state_vector_from_update_v1(b).is_ok(),
        19 => yrs::encode_state_vector_from_update_v2(b).is_ok(),
        _ => {
            let doc = yrs::Doc::with_client_id(777);
            let mut aw = Awareness::with_clock(doc, || 1u64);
            DefaultProtocol.handle(&mut aw, b).is_ok()
        }
    }
}

fn any_sample(rng: &mut Rng, depth: u32) -> Any {
    use std::collections::HashMap;
    use std::sync::Arc;
    match rng.below(if depth > 2 { 7 } else { 9 }) {
        0 => Any::Null,
        1 => Any::Undefined,
        2 => Any::Bool(rng.chance(50)),
        3 => Any::Number(rng.below(1000) as f64 * 1.5),
        4 => Any::BigInt(rng.next_u64() as i64),
        5 => Any::String(Arc::from(format!("s{}é🌀", rng.below(100)))),
        6 => Any::Buffer(Arc::from(vec![1u8, 2, 3, rng.below(255) as u8])),
        7 => Any::Array((0..rng.range(0, 3)).map(|_| any_sample(rng, depth + 1)).collect()),
        _ => {
            let mut m = HashMap::new();
            for i in 0..rng.range(0, 3) {
                m.insert(format!("k{}", i), any_sample(rng, depth + 1));
            }
            Any::Map(Arc::new(m))
        }
    }
}

/// runs a small simulated cluster and returns every kind of payload its traffic produced
pub fn corpus(cell_seed: u64) -> Vec<(Kind, Vec<u8>)> {
    let mut rng = Rng::new(cell_seed);
    let mut cfg = profile::draw_cfg("sec", false, &mut rng);
    cfg.profile = "corpus".into();
    cfg.max_events = cfg.max_events.min(24);
    let mut w = World::new(cfg, rng.next_u64(), 1);
    for _ in 0..60 {
        match w.step() {
            Ok(true) => continue,
            _ => break,
        }
    }
    let mut out: Vec<(Kind, Vec<u8>)> = Vec::new();
    let cap = |v: &Vec<u8>| v.len() <= 65_536 && !v.is_empty();
    let mut updates: Vec<Vec<u8>> = Vec::new();
    for u in w.uids.iter().rev().take(10) {
        if cap(&u.payload.v1) {
            out.push((Kind::UpdateV1, u.payload.v1.clone()));
            updates.push(u.payload.v1.clone());
        }
        if cap(&u.payload.v2) {
            out.push((Kind::UpdateV2, u.payload.v2.clone()));
        }
    }
    let mut svs = Vec::new();
    for nd in w.nodes.iter() {
        let t = nd.doc.transact();
        let sv = t.state_vector();
        let snap = t.snapshot();
        out.push((Kind::SvV1, sv.encode_v1()));
        out.push((Kind::SvV2, sv.encode_v2()));
        svs.push(sv.clone());
        out.push((Kind::SnapV1, snap.encode_v1()));
        out.push((Kind::SnapV2, snap.encode_v2()));
        out.push((Kind::DsV1, snap.delete_set.encode_v1()));
        out.push((Kind::DsV2, snap.delete_set.encode_v2()));
        let full1 = t.encode_state_as_update_v1(&StateVector::default());
        let full2 = t.encode_state_as_update_v2(&StateVector::default());
        if cap(&full1) {
            out.push((Kind::UpdateV1, full1.clone()));
            updates.push(full1);
        }
        if cap(&full2) {
            out.push((Kind::UpdateV2, full2));
        }
        // a sticky index into the root text, if it has content
        if let Some(txt) = t.get_text(crate::dump::ROOT_TEXT) {
            use yrs::{Assoc, IndexedSequence};
            if let Some(si) = txt.sticky_index(&t, 0, Assoc::After) {
                out.push((Kind::StickyBin, si.encode_v1()));
                if let Ok(j) = serde_json::to_vec(&si) {
                    out.push((Kind::StickyJson, j));
                }
            }
            if let Some(si) = txt.sticky_index(&t, 0, Assoc::Before) {
                out.push((Kind::StickyBin, si.encode_v1()));
            }
        }
    }
    for _ in 0..4 {
        let a = any_sample(&mut rng, 0);
        let mut b = Vec::new();
        a.encode(&mut b);
        out.push((Kind::AnyBin, b));
        let mut s = String::new();
        a.to_json(&mut s);
        out.push((Kind::AnyJson, s.into_bytes()));
    }
    // sync protocol frames and awareness updates
    let doc = w.nodes[0].doc.clone();
    let mut aw = Awareness::with_clock(doc, || 5u64);
    aw.set_local_state_raw(format!("{{\"user\":\"u{}\",\"cursor\":{}}}", rng.below(10), rng.below(100)));
    if let Ok(au) = aw.update() {
        out.push((Kind::AwarenessV1, au.encode_v1()));
        let mut frames: Vec<Message> = vec![Message::Awareness(au), Message::AwarenessQuery, Message::Auth(Some("denied".into())), Message::Auth(None)];
        if let Some(sv) = svs.first() {
            frames.push(Message::Sync(SyncMessage::SyncStep1(sv.clone())));
        }
        for u in updates.iter().take(2) {
            frames.push(Message::Sync(SyncMessage::SyncStep2(u.clone())));
            frames.push(Message::Sync(SyncMessage::Update(u.clone())));
        }
        let mut all = Vec::new();
        for m in frames.iter() {
            let mut e = EncoderV1::new();
            m.encode(&mut e);
            let b = e.to_vec();
            out.push((Kind::Messages, b.clone()));
            all.extend(b);
        }
        if all.len() <= 65_536 {
            out.push((Kind::Messages, all));
        }
    }
    let mut e = EncoderV1::new();
    let _ = DefaultProtocol.start(&aw, &mut e);
    out.push((Kind::Messages, e.to_vec()));
    out
}

fn varint(mut x: u64) -> Vec<u8> {
    let mut v = Vec::new();
    loop {
        let b = (x & 0x7f) as u8;
        x >>= 7;
        if x == 0 {
            v.push(b);
            break;
        }
        v.push(b | 0x80);
    }
    v
}

/// applies one seeded fault operator
pub fn mutate(rng: &mut Rng, corpus: &[(Kind, Vec<u8>)], thorough: bool) -> Input {
    let (kind, base) = &corpus[rng.idx(corpus.len())];
    let mut b = base.clone();
    let how;
    let n = b.len().max(1);
    let op = rng.below(if thorough { 12 } else { 11 });
    match op {
        0 => {
            let k = rng.idx(n);
            b.truncate(k);
            how = format!("truncate to {}", k);
        }
        1 => {
            let i = rng.idx(n);
            let v = *rng.pick(&[0x00u8, 0x01, 0x7f, 0x80, 0xff]);
            if i < b.len() {
                b[i] = v;
            }
            how = format!("byte[{}] = {:#x}", i, v);
        }
        2 => {
            let i = rng.idx(n);
            let bit = rng.below(8);
            if i < b.len() {
                b[i] ^= 1 << bit;
            }
            how = format!("flip bit {} of byte[{}]", bit, i);
        }
        3 => {
            // a varint blown up: 0, max-1, max, 5- and 10-byte overlong
            let i = rng.idx(n);
            let v: Vec<u8> = match rng.below(6) {
                0 => vec![0],
                1 => varint((1u64 << 31) - 1),
                2 => varint(u32::MAX as u64),
                3 => varint((1u64 << 53) - 1),
                4 => vec![0xff, 0xff, 0xff, 0xff, 0x7f],
                _ => vec![0xff, 0xff, 0xff, 0xff, 0xff, 0xff, 0xff, 0xff, 0xff, 0x7f],
            };
            let end = (i + 1).min(b.len());
            b.splice(i.min(b.len())..end, v.clone());
            how = format!("varint at byte[{}] := {:?}", i, v);
        }
        4 => {
            // a count/length field set to 2^31 / 2^32-1 / 2^53 near the start
            let i = rng.idx(n.min(8));
            let v = match rng.below(3) {
                0 => varint(1u64 << 31),
                1 => varint(u32::MAX as u64),
                _ => varint(1u64 << 53),
            };
            let end = (i + 1).min(b.len());
            b.splice(i.min(b.len())..end, v.clone());
            how = format!("count at byte[{}] := {:?}", i, v);
        }
        5 => {
            // splice of two valid payloads
            let (_, other) = &corpus[rng.idx(corpus.len())];
            let i = rng.idx(n);
            let j = rng.idx(other.len().max(1));
            b.truncate(i);
            b.extend_from_slice(&other[j.min(other.len())..]);
            how = format!("prefix({}) + suffix of another payload from {}", i, j);
        }
        6 => {
            // nesting bomb for Any: arrays of one element, maps of one entry, or a mix of both,
            // depth up to the payload size
            let depth = *rng.pick(&[64usize, 1024, 20_000, 60_000]);
            let shape = rng.below(3);
            let mut v = Vec::with_capacity(depth * 3 + 1);
            for _ in 0..depth {
                let map = match shape {
                    0 => false,
                    1 => true,
                    _ => rng.chance(50),
                };
                if map {
                    v.push(118u8); // map
                    v.push(1u8); // of one entry
                    v.push(0u8); // with the empty key
                } else {
                    v.push(117u8); // array
                    v.push(1u8); // of one element
                }
            }
            v.push(126); // null
            b = v;
            how = format!("nesting bomb depth {} ({})", depth, ["arrays", "maps", "arrays and maps"][shape as usize]);
            return Input {
                entry: if rng.chance(70) { 8 } else { entries_for(*kind)[0] },
                bytes: b,
                how,
            };
        }
        7 => {
            let depth = *rng.pick(&[64usize, 1024, 20_000]);
            let objects = rng.chance(50);
            let mut s = String::new();
            for _ in 0..depth {
                s.push_str(if objects { "{\"a\":" } else { "[" });
            }
            if objects {
                s.push_str("null");
            }
            for _ in 0..depth {
                s.push(if objects { '}' } else { ']' });
            }
            how = format!("json nesting bomb depth {} ({})", depth, if objects { "objects" } else { "arrays" });
            return Input {
                entry: if rng.chance(70) { 9 } else { 11 },
                bytes: s.into_bytes(),
                how,
            };
        }
        8 => {
            // insert a few bytes
            let i = rng.idx(n);
            let k = rng.range(1, 4);
            for _ in 0..k {
                b.insert(i.min(b.len()), rng.below(256) as u8);
            }
            how = format!("insert {} bytes at {}", k, i);
        }
        9 => {
            // invalid UTF-8 inside the payload
            let i = rng.idx(n);
            let v: &[u8] = match rng.below(4) {
                0 => &[0xc0, 0x80],
                1 => &[0xed, 0xa0, 0x80],
                2 => &[0xf8, 0x88, 0x80, 0x80],
                _ => &[0xff],
            };
            let end = (i + v.len()).min(b.len());
            b.splice(i.min(b.len())..end, v.to_vec());
            how = format!("bytes {:x?} at {}", v, i);
        }
        10 => {
            how = "unchanged (valid payload)".into();
        }
        _ => {
            // several independent byte faults
            let k = rng.range(2, 6);
            for _ in 0..k {
                let i = rng.idx(n);
                if i < b.len() {
                    b[i] = rng.below(256) as u8;
                }
            }
            how = format!("{} random bytes", k);
        }
    }
    let entries = entries_for(*kind);
    let entry = if rng.chance(92) { *rng.pick(entries) } else { rng.idx(ENTRIES.len()) };
    Input { entry, bytes: b, how }
}

fn bound(len: usize) -> usize {
    64 * len + (1 << 20)
}

/// decodes a batch inside the cell, each input under its own allocation cap
fn decode_batch(inputs: &[Input]) -> Vec<Outcome> {
    let mut out = Vec::with_capacity(inputs.len());
    for inp in inputs {
        let live0 = arena::stats().live;
        arena::reset_peak();
        let bd = bound(inp.bytes.len());
        arena::set_caps(live0 + bd, bd);
        let ok = decode_entry(inp.entry, &inp.bytes);
        arena::set_caps(usize::MAX, usize::MAX);
        let st = arena::stats();
        out.push(Outcome {
            ok,
            peak: st.peak.saturating_sub(live0),
            max_req: st.max_req,
            reencode_failed: false,
        });
    }
    out
}

fn limits() -> Limits {
    Limits {
        wall_secs: 20,
        cpu_secs: 15,
        cap_live: 3 << 30,
        cap_single: 2 << 30,
        stack: 2 << 20,
    }
}

fn classify_single(inp: &Input) -> Option<Violation> {
    let i2 = vec![inp.clone()];
    let out = cell::run_cell(7, Limits { wall_secs: 8, cpu_secs: 6, ..limits() }, move || serde_json::to_vec(&decode_batch(&i2)).unwrap());
    let desc = |what: &str| -> String {
        format!(
            "{} on {} bytes fed to {} ({}): {}\n  input = {}",
            what,
            inp.bytes.len(),
            ENTRIES[inp.entry],
            inp.how,
            "untrusted input must yield a value or an error",
            hex_cap(&inp.bytes)
        )
    };
    match out.status {
        CellStatus::Done => None,
        CellStatus::Panic(m) => Some(viol("corrupt.panic", desc(&format!("panic `{}`", m)))),
        CellStatus::Signal(14) | CellStatus::Signal(24) => Some(viol("corrupt.hang", desc("no answer within the CPU/wall cap"))),
        CellStatus::Signal(6) => {
            // abort: an allocation beyond 64 x len + 1 MiB was refused (or the library aborted)
            // Known finding F51 is identified by the entry point: the v2 update format stores its
            // columns run-length encoded, so a handful of bytes can declare millions of blocks and
            // Update::decode_v2 materialises every one of them (memory proportional to the decoded,
            // not to the encoded size).
            let e = ENTRIES[inp.entry];
            let v2_update = matches!(e, "Update::decode_v2" | "merge_updates_v2" | "diff_updates_v2" | "encode_state_vector_from_update_v2");
            Some(viol(if v2_update { "corrupt.abort-v2-block-bomb" } else { "corrupt.abort" }, desc(&format!("process aborted (SIGABRT; allocation beyond {} bytes refused, or abort)", bound(inp.bytes.len())))))
        }
        CellStatus::Signal(s) => Some(viol("corrupt.signal", desc(&format!("process killed by {}", cell::signal_name(s))))),
        CellStatus::Broken(m) => Some(viol("corrupt.signal", desc(&format!("process died: {}", m)))),
    }
}

/// the whole input (replay files must hold all of it: a nesting bomb is several 100 kB)
pub fn hex_full(b: &[u8]) -> String {
    let mut s = String::with_capacity(b.len() * 2);
    for x in b.iter() {
        s.push_str(&format!("{:02x}", x));
    }
    s
}

/// for messages
pub fn hex_cap(b: &[u8]) -> String {
    let mut s = hex_full(&b[..b.len().min(512)]);
    if b.len() > 512 {
        s.push_str("..");
    }
    s
}

fn unhex(s: &str) -> Vec<u8> {
    let s = s.trim_end_matches("..");
    (0..s.len() / 2).filter_map(|i| u8::from_str_radix(&s[2 * i..2 * i + 2], 16).ok()).collect()
}

fn dummy_cfg() -> RunCfg {
    let mut r = Rng::new(1);
    let mut c = profile::draw_cfg("corrupt", false, &mut r);
    c.profile = "corrupt".into();
    c
}

fn to_trace(inp: &Input) -> Vec<TraceEv> {
    vec![TraceEv {
        eid: 0,
        ev: Ev::Special {
            n: inp.entry,
            k: ENTRIES[inp.entry].to_string(),
            a: vec![],
            s: vec![hex_full(&inp.bytes), inp.how.clone()],
        },
    }]
}

pub fn inputs_per_cell(thorough: bool) -> usize {
    if thorough {
        400
    } else {
        160
    }
}

/// one "cell" of the corrupt profile = one corpus + one batch of mutated inputs
pub fn cell_generated(thorough: bool, cell_seed: u64, full: bool) -> CellResult {
    // phase A: corpus from simulated traffic (valid data only)
    let out = cell::run_cell(cell_seed, Limits::default(), move || {
        let c = corpus(cell_seed);
        serde_json::to_vec(&c).unwrap()
    });
    let corp: Vec<(Kind, Vec<u8>)> = match out.status {
        CellStatus::Done => match serde_json::from_slice(&out.payload) {
            Ok(c) => c,
            Err(e) => return CellResult::Died(format!("corpus unreadable: {}", e)),
        },
        other => return CellResult::Died(format!("corpus cell failed: {:?}", other)),
    };
    if corp.is_empty() {
        return CellResult::Died("empty corpus".into());
    }
    // phase B: seeded fault operators
    let mut rng = Rng::new(crate::rng::mix(cell_seed, 0xC0));
    let k = inputs_per_cell(thorough);
    let inputs: Vec<Input> = (0..k).map(|_| mutate(&mut rng, &corp, thorough)).collect();
    // phase C: one metered cell for the batch
    let i2 = inputs.clone();
    let out = cell::run_cell(cell_seed, limits(), move || serde_json::to_vec(&decode_batch(&i2)).unwrap());
    let mut stats = Stats::default();
    stats.events = inputs.len() as u64;
    let mut violation: Option<(Violation, Input)> = None;
    let mut sigs = std::collections::BTreeSet::new();
    match out.status {
        CellStatus::Done => {
            let res: Vec<Outcome> = serde_json::from_slice(&out.payload).unwrap_or_default();
            for (inp, r) in inputs.iter().zip(res.iter()) {
                stats.oracle_evals += 1;
                *stats.probes.entry(format!("entry:{}", ENTRIES[inp.entry])).or_insert(0) += 1;
                *stats.probes.entry(if r.ok { "decoded-ok".to_string() } else { "decoded-err".to_string() }).or_insert(0) += 1;
                sigs.insert((inp.entry, crate::dump::hash64(&hex_full(&inp.bytes))));
                let _ = r.peak;
            }
        }
        _ => {
            // find the culprit(s): one input per cell
            for inp in inputs.iter() {
                stats.oracle_evals += 1;
                if let Some(v) = classify_single(inp) {
                    violation = Some((v, inp.clone()));
                    break;
                }
            }
            if violation.is_none() {
                // the batch died but no single input does: report the batch status as it is
                return CellResult::Died(format!("batch cell failed ({:?}) but no single input reproduces it", out.status));
            }
        }
    }
    stats.closed_checks = sigs.len() as u64;
    let sample_trace = if full || violation.is_some() {
        Some(match &violation {
            Some((_, inp)) => to_trace(inp),
            None => inputs.iter().take(6).flat_map(|i| to_trace(i)).collect(),
        })
    } else {
        None
    };
    CellResult::Run(RunOutput {
        violation: violation.map(|(v, _)| v),
        stats,
        signature: cell_seed,
        final_hash: 0,
        nontrivial: true,
        cfg: if sample_trace.is_some() { Some(dummy_cfg()) } else { None },
        trace: sample_trace,
    })
}

pub fn cell_replay(rf: &ReplayFile) -> CellResult {
    let mut stats = Stats::default();
    for t in rf.trace.iter() {
        if let Ev::Special { n, s, .. } = &t.ev {
            let inp = Input {
                entry: (*n).min(ENTRIES.len() - 1),
                bytes: unhex(s.first().map(|x| x.as_str()).unwrap_or("")),
                how: s.get(1).cloned().unwrap_or_default(),
            };
            stats.oracle_evals += 1;
            if let Some(v) = classify_single(&inp) {
                return CellResult::Run(RunOutput {
                    violation: Some(v),
                    stats,
                    signature: 0,
                    final_hash: 0,
                    nontrivial: true,
                    cfg: Some(rf.cfg.clone()),
                    trace: Some(rf.trace.clone()),
                });
            }
        }
    }
    CellResult::Run(RunOutput {
        violation: None,
        stats,
        signature: 0,
        final_hash: 0,
        nontrivial: true,
        cfg: Some(rf.cfg.clone()),
        trace: Some(rf.trace.clone()),
    })
}

/// shrinks the failing input: truncation from the end, then byte deletion, while the verdict stays
pub fn minimise(mut rf: ReplayFile) -> (Option<ReplayFile>, String) {
    let want = rf.expect.oracle.clone();
    let Some(TraceEv { ev: Ev::Special { n, s, .. }, .. }) = rf.trace.first().cloned() else {
        return (Some(rf), "not minimised".into());
    };
    let mut bytes = unhex(&s[0]);
    let how = s.get(1).cloned().unwrap_or_default();
    let start = bytes.len();
    let same = |b: &[u8]| -> Option<Violation> {
        let v = classify_single(&Input { entry: n, bytes: b.to_vec(), how: how.clone() });
        match v {
            Some(v) if v.oracle == want => Some(v),
            _ => None,
        }
    };
    if same(&bytes).is_none() {
        return (None, "single input does not reproduce".into());
    }
    let mut budget = 300;
    // drop tail chunks, then single bytes
    let mut chunk = bytes.len() / 2;
    while chunk >= 1 && budget > 0 {
        let mut i = 0;
        let mut progressed = false;
        while i + chunk <= bytes.len() && budget > 0 {
            let mut cand = bytes.clone();
            cand.drain(i..i + chunk);
            budget -= 1;
            if same(&cand).is_some() {
                bytes = cand;
                progressed = true;
            } else {
                i += chunk;
            }
        }
        if !progressed || chunk == 1 {
            chunk /= 2;
        }
    }
    let inp = Input { entry: n, bytes: bytes.clone(), how: format!("{} (shrunk from {} to {} bytes)", how, start, bytes.len()) };
    let v = match same(&bytes) {
        Some(v) => v,
        None => return (None, "minimised input is not stable".into()),
    };
    rf.trace = to_trace(&inp);
    rf.expect = v;
    (Some(rf), format!("{} -> {} bytes", start, bytes.len()))
}
