//! Dispatch for the profiles with their own special events: C13 snap (here), C14 sticky / C20 weak
//! (stickymon.rs), C11 events (eventsmon.rs), C12 undo (undomon.rs).

use crate::monitors::TxnKind;
use crate::world::*;
use yrs::updates::decoder::Decode;
use yrs::updates::encoder::{Encode, Encoder, EncoderV1, EncoderV2};
use yrs::{ReadTxn, Snapshot, Transact};

pub struct SnapRec {
    pub node: usize,
    pub snap: Snapshot,
    pub dump: String,
    pub eid: u32,
    /// the source had a stash or a gap when the snapshot was taken
    pub gappy: bool,
}

#[derive(Default)]
pub struct AnchorState {
    pub snaps: Vec<SnapRec>,
}

pub fn pre_txn(w: &mut World, n: usize) {
    match w.cfg.profile.as_str() {
        "sticky" | "weak" => crate::stickymon::pre_txn(w, n),
        "events" => crate::eventsmon::pre_txn(w, n),
        "undo" => crate::undomon::pre_txn(w, n),
        _ => {}
    }
}

pub fn post_txn(w: &mut World, n: usize, kind: &TxnKind, uid: Option<usize>) -> VResult {
    match w.cfg.profile.as_str() {
        "sticky" | "weak" => crate::stickymon::post_txn(w, n, kind, uid),
        "events" => crate::eventsmon::post_txn(w, n, kind, uid),
        "undo" => crate::undomon::post_txn(w, n, kind, uid),
        "snap" => crate::monitors::check_closed_as(w, n, "snap"),
        _ => Ok(()),
    }
}

pub fn at_quiescence(w: &mut World) -> VResult {
    match w.cfg.profile.as_str() {
        "snap" => {
            for i in 0..w.mon.anchors.snaps.len() {
                restore(w, i, 0)?;
                restore(w, i, 3)?;
            }
            Ok(())
        }
        "sticky" | "weak" => crate::stickymon::at_quiescence(w),
        "events" => crate::eventsmon::at_quiescence(w),
        "undo" => crate::undomon::at_quiescence(w),
        _ => Ok(()),
    }
}

fn sp(n: usize, k: &str, a: Vec<u64>) -> Ev {
    Ev::Special {
        n,
        k: k.to_string(),
        a,
        s: vec![],
    }
}

pub fn draw(w: &mut World) -> Option<Ev> {
    match w.cfg.profile.as_str() {
        "snap" => {
            let n = w.rng.idx(w.nodes.len());
            if w.mon.anchors.snaps.is_empty() || w.rng.chance(50) {
                Some(sp(n, "snapshot", vec![]))
            } else {
                let i = w.rng.below(w.mon.anchors.snaps.len() as u64);
                Some(sp(n, "restore", vec![i, w.rng.below(4)]))
            }
        }
        "sticky" | "weak" => crate::stickymon::draw(w),
        "events" => crate::eventsmon::draw(w),
        "undo" => crate::undomon::draw(w),
        _ => None,
    }
}

pub fn exec(w: &mut World, n: usize, k: &str, a: &[u64], s: &[String]) -> VResult {
    match (w.cfg.profile.as_str(), k) {
        ("snap", "snapshot") => snapshot(w, n),
        ("snap", "restore") => {
            let i = a.first().copied().unwrap_or(0) as usize;
            if w.mon.anchors.snaps.is_empty() {
                return Ok(());
            }
            let i = i % w.mon.anchors.snaps.len();
            restore(w, i, a.get(1).copied().unwrap_or(0))
        }
        ("sticky", _) | ("weak", _) => crate::stickymon::exec(w, n, k, a, s),
        ("events", _) => crate::eventsmon::exec(w, n, k, a, s),
        ("undo", _) => crate::undomon::exec(w, n, k, a, s),
        _ => Ok(()),
    }
}

// ---- C13 -----------------------------------------------------------------------------------------

fn snapshot(w: &mut World, n: usize) -> VResult {
    let doc = w.nodes[n].doc.clone();
    let t = doc.transact();
    let snap = t.snapshot();
    if !w.nodes[n].cfg.skip_gc {
        // on a GC-enabled document the request must be refused
        let mut enc = EncoderV1::new();
        w.stats.oracle_evals += 1;
        return match t.encode_state_from_snapshot(&snap, &mut enc) {
            Err(_) => Ok(()),
            Ok(()) => Err(viol(
                "snap.gc-not-refused",
                format!("node {} has GC enabled but encode_state_from_snapshot succeeded", n),
            )),
        };
    }
    // a replica with a stash or a gap is not a state "the document was in" for this purpose: the
    // snapshot's state vector stops at the first gap
    let gappy = t.has_missing_updates() || yrs::verif::has_skips(t.store());
    let dump = crate::dump::dump_doc(&t);
    drop(t);
    w.mon.anchors.snaps.push(SnapRec {
        node: n,
        snap,
        dump,
        eid: w.cur_eid,
        gappy,
    });
    Ok(())
}

fn restore(w: &mut World, i: usize, mode: u64) -> VResult {
    let (node, snap, dump, eid, gappy) = {
        let r = &w.mon.anchors.snaps[i];
        (r.node, r.snap.clone(), r.dump.clone(), r.eid, r.gappy)
    };
    let v2 = mode & 1 == 1;
    // the snapshot survives its own encode/decode
    let snap_used = if mode & 2 == 2 {
        let rt = if v2 {
            Snapshot::decode_v2(&snap.encode_v2())
        } else {
            Snapshot::decode_v1(&snap.encode_v1())
        };
        match rt {
            Ok(s) => {
                if s != snap {
                    return Err(viol(
                        "snap.roundtrip",
                        format!("snapshot taken at event {} on node {} changed by encode/decode ({})", eid, node, if v2 { "v2" } else { "v1" }),
                    ));
                }
                s
            }
            Err(e) => {
                return Err(viol(
                    "snap.roundtrip",
                    format!("snapshot taken at event {} on node {} cannot be decoded after encoding: {}", eid, node, e),
                ))
            }
        }
    } else {
        snap.clone()
    };
    let doc = w.nodes[node].doc.clone();
    if doc.skip_gc() != true {
        return Ok(());
    }
    let bytes = {
        let t = doc.transact();
        if v2 {
            let mut enc = EncoderV2::new();
            t.encode_state_from_snapshot(&snap_used, &mut enc).map(|_| enc.to_vec())
        } else {
            let mut enc = EncoderV1::new();
            t.encode_state_from_snapshot(&snap_used, &mut enc).map(|_| enc.to_vec())
        }
    };
    w.stats.oracle_evals += 1;
    let bytes = match bytes {
        Ok(b) => b,
        Err(e) => {
            return Err(viol(
                "snap.restore",
                format!("encode_state_from_snapshot failed on a no-GC document: {}", e),
            ))
        }
    };
    let fresh = passive_doc(true, w.nodes[node].cfg.utf16);
    let p = if v2 {
        Payload { v1: vec![], v2: bytes }
    } else {
        Payload { v1: bytes, v2: vec![] }
    };
    if let Err(e) = apply_payload(&fresh, &p, if v2 { Enc::V2 } else { Enc::V1 }) {
        return Err(viol(
            "snap.restore",
            format!(
                "the state encoded from the snapshot taken at event {} on node {} cannot be applied to an empty document ({}): {}",
                eid,
                node,
                if v2 { "v2" } else { "v1" },
                e
            ),
        ));
    }
    let got = doc_dump(&fresh);
    if got != dump {
        return Err(viol(
            if gappy { "snap.restore-gappy" } else { "snap.restore" },
            format!(
                "snapshot taken at event {} on node {}, restored now ({}): content differs from what the document showed then\n  restored: {}\n  recorded: {}",
                eid,
                node,
                if v2 { "v2" } else { "v1" },
                got,
                dump
            ),
        ));
    }
    Ok(())
}
