//! Shrinks a failing trace under cell conditions (DESIGN.md §3.4): ddmin over events, then single
//! events, then single ops inside transactions. A candidate is kept only if the cell ends in the
//! same oracle id. The result is replayed three times in fresh cells.

use crate::driver::{cell_replay, CellResult};
use crate::run::ReplayFile;
use crate::world::{Ev, TraceEv, Violation};
use std::time::Instant;

fn eval(rf: &ReplayFile) -> Option<Violation> {
    match cell_replay(rf) {
        CellResult::Run(out) => out.violation,
        CellResult::Died(m) => Some(Violation {
            oracle: format!("{}.died", rf.profile),
            msg: m,
            at_eid: 0,
        }),
    }
}

fn same(v: &Option<Violation>, want: &str) -> bool {
    v.as_ref().map(|x| x.oracle == want).unwrap_or(false)
}

/// Returns the minimised replay file (None if the failure does not reproduce at all) and a note.
pub fn confirm_and_minimise(mut rf: ReplayFile, _thorough: bool) -> (Option<ReplayFile>, String) {
    let want = rf.expect.oracle.clone();
    if rf.profile == "corrupt" {
        return crate::monitors::minimise_special(rf);
    }
    // 1. does the explicit trace reproduce the verdict (replay mode)?
    let first = if rf.trace.is_empty() { None } else { eval(&rf) };
    if !same(&first, &want) {
        // hash-order dependent or died before a trace could be returned: fall back to seed mode
        let mut seed_rf = rf.clone();
        seed_rf.trace = vec![];
        seed_rf.note = "seed-mode: regenerate the run from the cell seed (the explicit trace did not reproduce the verdict, or the cell died before returning one)".into();
        let v = eval(&seed_rf);
        if same(&v, &want) {
            seed_rf.expect = v.unwrap();
            let v2 = eval(&seed_rf);
            if same(&v2, &want) {
                return (Some(seed_rf), "not minimised (seed mode)".into());
            }
        }
        return (None, format!("replay gave {:?}", first.map(|v| v.oracle)));
    }
    rf.expect = first.unwrap();
    let t0 = Instant::now();
    let mut budget: u32 = 3000;
    let start_len = rf.trace.len();
    let mut try_trace = |cand: Vec<TraceEv>, rf: &mut ReplayFile, budget: &mut u32| -> bool {
        if *budget == 0 || t0.elapsed().as_secs() > 25 {
            return false;
        }
        *budget -= 1;
        let mut c = rf.clone();
        c.trace = cand;
        let v = eval(&c);
        if same(&v, &want) {
            rf.trace = c.trace;
            rf.expect = v.unwrap();
            true
        } else {
            false
        }
    };
    // events after the failing one are irrelevant
    if rf.expect.at_eid != u32::MAX {
        if let Some(pos) = rf.trace.iter().position(|t| t.eid == rf.expect.at_eid) {
            let cand = rf.trace[..=pos].to_vec();
            if cand.len() < rf.trace.len() {
                try_trace(cand, &mut rf, &mut budget);
            }
        }
    }
    loop {
        let before = rf.trace.len();
        // ddmin: chunks
        let mut n = 2usize;
        while rf.trace.len() >= 2 && n <= rf.trace.len() {
            let len = rf.trace.len();
            let chunk = (len + n - 1) / n;
            let mut reduced = false;
            let mut i = 0;
            while i < len {
                let mut cand = rf.trace.clone();
                let hi = (i + chunk).min(len);
                cand.drain(i..hi);
                if try_trace(cand, &mut rf, &mut budget) {
                    reduced = true;
                    break;
                }
                i += chunk;
            }
            if reduced {
                n = (n - 1).max(2);
            } else {
                if n >= len {
                    break;
                }
                n = (n * 2).min(len);
            }
            if budget == 0 {
                break;
            }
        }
        // single ops inside transactions
        let mut ei = 0;
        while ei < rf.trace.len() {
            if let Ev::Txn { n, origin, ops } = rf.trace[ei].ev.clone() {
                let mut oi = 0;
                let mut cur = ops;
                while cur.len() > 1 && oi < cur.len() {
                    let mut c2 = cur.clone();
                    c2.remove(oi);
                    let mut cand = rf.trace.clone();
                    cand[ei].ev = Ev::Txn { n, origin: origin.clone(), ops: c2.clone() };
                    if try_trace(cand, &mut rf, &mut budget) {
                        cur = c2;
                    } else {
                        oi += 1;
                    }
                }
            }
            ei += 1;
        }
        if rf.trace.len() >= before || budget == 0 {
            break;
        }
    }
    // the minimised file must reproduce, three times, in fresh cells
    for _ in 0..3 {
        let v = eval(&rf);
        if !same(&v, &want) {
            return (None, "minimised trace is not stable".into());
        }
    }
    let note = format!(
        "{} -> {} events, {} candidates, {:.1}s",
        start_len,
        rf.trace.len(),
        3000 - budget,
        t0.elapsed().as_secs_f64()
    );
    rf.note = note.clone();
    (Some(rf), note)
}
