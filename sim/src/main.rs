//! ysim — deterministic simulation with fault injection for yrs (see /verif/DESIGN.md)

mod anchors;
mod arena;
mod bits;
mod cell;
mod corrupt;
mod driver;
mod dump;
mod eventsmon;
mod gen;
mod known;
mod minimise;
mod monitors;
mod ops;
mod profile;
mod reads;
mod rng;
mod run;
mod seqmon;
mod special;
mod stickymon;
mod undomon;
mod world;
mod ysync;

#[global_allocator]
static GLOBAL: arena::Arena = arena::Arena;

fn main() {
    let args: Vec<String> = std::env::args().collect();
    let code = driver::main(&args);
    std::process::exit(code);
}
