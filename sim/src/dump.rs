//! Canonical dump ("observably equal") built only from the public read API (DESIGN.md §4.1).

use std::collections::HashMap;
use std::fmt::Write;
use std::sync::Arc;
use yrs::types::text::YChange;
use yrs::types::{Attrs, ToJson};
use yrs::{
    Any, Array, ArrayRef, GetString, Map, MapRef, Out, ReadTxn, Text, TextRef, Xml, XmlElementRef,
    XmlFragment, XmlFragmentRef, XmlOut, XmlTextRef,
};

pub const ROOT_TEXT: &str = "t";
pub const ROOT_ARRAY: &str = "a";
pub const ROOT_MAP: &str = "m";
pub const ROOT_XML: &str = "x";

pub fn any_json(a: &Any, out: &mut String) {
    match a {
        Any::Null => out.push_str("null"),
        Any::Undefined => out.push_str("undef"),
        Any::Bool(b) => {
            let _ = write!(out, "{}", b);
        }
        Any::Number(n) => {
            let _ = write!(out, "n{:?}", n);
        }
        Any::BigInt(i) => {
            let _ = write!(out, "i{}", i);
        }
        Any::String(s) => {
            let _ = write!(out, "{:?}", s.as_ref());
        }
        Any::Buffer(b) => {
            out.push_str("b[");
            for x in b.iter() {
                let _ = write!(out, "{:02x}", x);
            }
            out.push(']');
        }
        Any::Array(xs) => {
            out.push('[');
            for (i, x) in xs.iter().enumerate() {
                if i > 0 {
                    out.push(',');
                }
                any_json(x, out);
            }
            out.push(']');
        }
        Any::Map(m) => {
            let mut keys: Vec<&String> = m.keys().collect();
            keys.sort();
            out.push('{');
            for (i, k) in keys.iter().enumerate() {
                if i > 0 {
                    out.push(',');
                }
                let _ = write!(out, "{:?}:", k);
                any_json(&m[*k], out);
            }
            out.push('}');
        }
    }
}

pub fn any_str(a: &Any) -> String {
    let mut s = String::new();
    any_json(a, &mut s);
    s
}

pub fn attrs_str(attrs: Option<&Attrs>) -> String {
    let mut s = String::new();
    if let Some(a) = attrs {
        let mut keys: Vec<&Arc<str>> = a
            .iter()
            .filter(|(_, v)| !matches!(v, Any::Null))
            .map(|(k, _)| k)
            .collect();
        keys.sort();
        if !keys.is_empty() {
            s.push('{');
            for (i, k) in keys.iter().enumerate() {
                if i > 0 {
                    s.push(',');
                }
                let _ = write!(s, "{}=", k);
                any_json(&a[*k], &mut s);
            }
            s.push('}');
        }
    }
    s
}

/// one visible unit of a text: a character or an embed (dumped), with canonical attributes
#[derive(Clone, Debug, PartialEq, Eq)]
pub struct TextUnit {
    pub ch: Option<char>,
    pub embed: Option<String>,
    pub attrs: String,
}

pub fn text_units<T: ReadTxn>(txn: &T, t: &TextRef) -> Vec<TextUnit> {
    let mut units = Vec::new();
    for d in t.diff(txn, YChange::identity) {
        let attrs = attrs_str(d.attributes.as_deref());
        match &d.insert {
            Out::Any(Any::String(s)) => {
                for ch in s.chars() {
                    units.push(TextUnit {
                        ch: Some(ch),
                        embed: None,
                        attrs: attrs.clone(),
                    });
                }
            }
            other => {
                let mut s = String::new();
                dump_out(txn, other, &mut s);
                units.push(TextUnit {
                    ch: None,
                    embed: Some(s),
                    attrs: attrs.clone(),
                });
            }
        }
    }
    units
}

pub fn pack_units(units: &[TextUnit], out: &mut String) {
    let mut i = 0;
    while i < units.len() {
        let u = &units[i];
        if let Some(e) = &u.embed {
            let _ = write!(out, "<{}>{}", e, u.attrs);
            i += 1;
        } else {
            let mut s = String::new();
            let mut j = i;
            while j < units.len() && units[j].ch.is_some() && units[j].attrs == u.attrs {
                s.push(units[j].ch.unwrap());
                j += 1;
            }
            let _ = write!(out, "{:?}{}", s, u.attrs);
            i = j;
        }
        if i < units.len() {
            out.push('|');
        }
    }
}

pub fn dump_text<T: ReadTxn>(txn: &T, t: &TextRef, out: &mut String) {
    out.push_str("T(");
    let units = text_units(txn, t);
    pack_units(&units, out);
    out.push(')');
}

pub fn dump_array<T: ReadTxn>(txn: &T, a: &ArrayRef, out: &mut String) {
    out.push_str("A[");
    for (i, v) in a.iter(txn).enumerate() {
        if i > 0 {
            out.push(',');
        }
        dump_out(txn, &v, out);
    }
    out.push(']');
}

pub fn dump_map<T: ReadTxn>(txn: &T, m: &MapRef, out: &mut String) {
    let mut entries: Vec<(String, Out)> = m.iter(txn).map(|(k, v)| (k.to_string(), v)).collect();
    entries.sort_by(|a, b| a.0.cmp(&b.0));
    out.push_str("M{");
    for (i, (k, v)) in entries.iter().enumerate() {
        if i > 0 {
            out.push(',');
        }
        let _ = write!(out, "{:?}:", k);
        dump_out(txn, v, out);
    }
    out.push('}');
}

fn dump_xml_attrs<T: ReadTxn, X: Xml>(txn: &T, x: &X, out: &mut String) {
    let mut entries: Vec<(String, Out)> =
        x.attributes(txn).map(|(k, v)| (k.to_string(), v)).collect();
    entries.sort_by(|a, b| a.0.cmp(&b.0));
    if !entries.is_empty() {
        out.push('@');
        out.push('{');
        for (i, (k, v)) in entries.iter().enumerate() {
            if i > 0 {
                out.push(',');
            }
            let _ = write!(out, "{}=", k);
            dump_out(txn, v, out);
        }
        out.push('}');
    }
}

pub fn dump_xml_children<T: ReadTxn, X: XmlFragment>(txn: &T, x: &X, out: &mut String) {
    out.push('[');
    for (i, c) in x.children(txn).enumerate() {
        if i > 0 {
            out.push(',');
        }
        dump_xml(txn, &c, out);
    }
    out.push(']');
}

pub fn dump_xml_text<T: ReadTxn>(txn: &T, t: &XmlTextRef, out: &mut String) {
    out.push_str("XT");
    dump_xml_attrs(txn, t, out);
    out.push('(');
    let tr: &TextRef = t.as_ref();
    let units = text_units(txn, tr);
    pack_units(&units, out);
    out.push(')');
}

pub fn dump_xml_element<T: ReadTxn>(txn: &T, e: &XmlElementRef, out: &mut String) {
    let _ = write!(out, "XE<{}>", e.tag());
    dump_xml_attrs(txn, e, out);
    dump_xml_children(txn, e, out);
}

pub fn dump_xml_fragment<T: ReadTxn>(txn: &T, f: &XmlFragmentRef, out: &mut String) {
    out.push_str("XF");
    dump_xml_children(txn, f, out);
}

pub fn dump_xml<T: ReadTxn>(txn: &T, x: &XmlOut, out: &mut String) {
    match x {
        XmlOut::Element(e) => dump_xml_element(txn, e, out),
        XmlOut::Fragment(f) => dump_xml_fragment(txn, f, out),
        XmlOut::Text(t) => dump_xml_text(txn, t, out),
    }
}

pub fn dump_out<T: ReadTxn>(txn: &T, v: &Out, out: &mut String) {
    match v {
        Out::Any(a) => any_json(a, out),
        Out::YText(t) => dump_text(txn, t, out),
        Out::YArray(a) => dump_array(txn, a, out),
        Out::YMap(m) => dump_map(txn, m, out),
        Out::YXmlElement(e) => dump_xml_element(txn, e, out),
        Out::YXmlFragment(f) => dump_xml_fragment(txn, f, out),
        Out::YXmlText(t) => dump_xml_text(txn, t, out),
        Out::YDoc(d) => {
            let _ = write!(out, "DOC({})", d.guid());
        }
        Out::YWeakLink(w) => {
            // the link itself is content; what it shows is derived from the source and is dumped
            // by the `weak` profile's own oracle
            let _ = write!(out, "WEAK");
            let _ = w;
        }
        Out::UndefinedRef(_) => out.push_str("UNDEF"),
    }
}

/// dump of the four declared roots
pub fn dump_doc<T: ReadTxn>(txn: &T) -> String {
    let mut s = String::with_capacity(256);
    if let Some(t) = txn.get_text(ROOT_TEXT) {
        s.push_str("t=");
        dump_text(txn, &t, &mut s);
    }
    if let Some(a) = txn.get_array(ROOT_ARRAY) {
        s.push_str(";a=");
        dump_array(txn, &a, &mut s);
    }
    if let Some(m) = txn.get_map(ROOT_MAP) {
        s.push_str(";m=");
        dump_map(txn, &m, &mut s);
    }
    if let Some(x) = txn.get_xml_fragment(ROOT_XML) {
        s.push_str(";x=");
        dump_xml_fragment(txn, &x, &mut s);
    }
    s
}

pub fn hash64(s: &str) -> u64 {
    // FNV-1a
    let mut h: u64 = 0xcbf29ce484222325;
    for b in s.as_bytes() {
        h ^= *b as u64;
        h = h.wrapping_mul(0x100000001b3);
    }
    h
}

#[allow(dead_code)]
pub fn json_len(a: &Any) -> Option<usize> {
    match a {
        Any::Array(x) => Some(x.len()),
        Any::Map(m) => Some(m.len()),
        _ => None,
    }
}

#[allow(dead_code)]
pub fn to_json_str<T: ReadTxn, J: ToJson>(txn: &T, j: &J) -> String {
    any_str(&j.to_json(txn))
}

#[allow(dead_code)]
pub fn xml_string<T: ReadTxn, G: GetString>(txn: &T, g: &G) -> String {
    g.get_string(txn)
}
