//! C14 `sticky` (sticky indexes keep pointing at the same place) and C20 `weak` (quotations and
//! links show the current content of their source). Both oracles know exactly where a deleted
//! anchor / boundary element used to be from the item sequence of the branch (hook
//! `yrs::verif::branch_items`), and compute anchors and boundaries themselves at creation time —
//! independently of the ids the library picked.

use crate::dump;
use crate::monitors::TxnKind;
use crate::ops::{self, Kind, Tgt};
use crate::world::*;
use std::sync::atomic::{AtomicU64, Ordering};
use std::sync::Arc;
use yrs::branch::{Branch, BranchPtr};
use yrs::updates::decoder::Decode;
use yrs::updates::encoder::Encode;
use yrs::{
    Array, ArrayRef, Assoc, GetString, IndexedSequence, Map, MapRef, Observable, OffsetKind, Out, Quotable, ReadTxn, StickyIndex, Subscription,
    TextRef, Transact, WeakRef, XmlFragmentRef, XmlTextRef,
};

#[derive(Clone, Debug)]
pub struct Unit {
    pub client: u64,
    pub clock: u32,
    pub clocks: u32,
    pub deleted: bool,
    pub countable: bool,
    pub ch: Option<char>,
    pub val: Option<String>,
    /// where the copy of this unit's first clock lives, if the item was redone (undo manager)
    pub redone: Option<(u64, u32)>,
}

impl Unit {
    fn contains(&self, id: (u64, u32)) -> bool {
        self.client == id.0 && id.1 >= self.clock && id.1 < self.clock + self.clocks
    }
    fn visible(&self) -> bool {
        !self.deleted && self.countable
    }
    fn len(&self, ok: OffsetKind) -> u32 {
        match self.ch {
            Some(c) => match ok {
                OffsetKind::Bytes => c.len_utf8() as u32,
                OffsetKind::Utf16 => c.len_utf16() as u32,
            },
            None => 1,
        }
    }
}

/// the item sequence of a branch, unit by unit, tombstones included
pub fn units_of(b: &Branch) -> Vec<Unit> {
    let mut out = Vec::new();
    for it in yrs::verif::branch_items(&BranchPtr::from(b)) {
        let client = it.id.client.get();
        if let (Some(text), false) = (&it.text, false) {
            let mut off = 0u32;
            for c in text.chars() {
                let k = c.len_utf16() as u32;
                out.push(Unit {
                    client,
                    clock: it.id.clock + off,
                    clocks: k,
                    deleted: it.deleted,
                    countable: it.countable,
                    ch: Some(c),
                    val: Some(c.to_string()),
                    redone: it.redone.map(|r| (r.client.get(), r.clock + off)),
                });
                off += k;
            }
            continue;
        }
        if let Some(any) = &it.any {
            for (i, a) in any.iter().enumerate() {
                out.push(Unit {
                    client,
                    clock: it.id.clock + i as u32,
                    clocks: 1,
                    deleted: it.deleted,
                    countable: it.countable,
                    ch: None,
                    val: Some(dump::any_str(a)),
                    redone: it.redone.map(|r| (r.client.get(), r.clock + i as u32)),
                });
            }
            continue;
        }
        let val = if it.kind == "type" { Some(format!("{:?}", Tgt::N(client, it.id.clock))) } else { Some(it.kind.to_string()) };
        out.push(Unit {
            client,
            clock: it.id.clock,
            clocks: it.len.max(1),
            deleted: it.deleted || it.kind == "deleted",
            countable: it.countable,
            ch: None,
            val,
            redone: it.redone.map(|r| (r.client.get(), r.clock)),
        });
    }
    out
}

/// a text unit or a primitive value (not a nested type, a mark, or content that has been collected)
fn is_value(u: &Unit) -> bool {
    match u.val.as_deref() {
        None => false,
        Some(v) => !v.starts_with("N(") && !matches!(v, "deleted" | "gc" | "format" | "embed" | "type" | "doc" | "binary" | "json" | "string" | "any"),
    }
}

fn r_dbg(r: (u64, u32)) -> (u64, u32) {
    r
}

fn pos_of(units: &[Unit], id: (u64, u32)) -> Option<usize> {
    units.iter().position(|u| u.contains(id))
}

pub struct StickyRec {
    pub si: StickyIndex,
    pub cont: Tgt,
    pub kind: Kind,
    pub after: bool,
    /// the element the index is anchored to (computed by the harness), None = start/end of the collection
    pub anchor: Option<(u64, u32)>,
    pub eid: u32,
    /// created on a replica that counts in bytes while the collection held non-ASCII text (F12)
    pub made_bytes_nonascii: bool,
}

pub struct QuoteRec {
    pub link: Tgt,
    pub src: Tgt,
    pub kind: Kind,
    pub s: (u64, u32),
    pub e: (u64, u32),
    pub incl_end: bool,
    pub node: usize,
    pub fired: Arc<AtomicU64>,
    pub last: Option<String>,
    pub sub: Option<Subscription>,
    pub eid: u32,
}

pub struct MapLinkRec {
    pub link: Tgt,
    pub key: String,
}

#[derive(Default)]
pub struct StickyState {
    /// C14: an undo manager on node 0 (created by the first undo event of the run)
    pub um: Option<(yrs::undo::UndoManager<()>, Arc<AtomicU64>)>,
    pub stickies: Vec<StickyRec>,
    pub quotes: Vec<QuoteRec>,
    pub maplinks: Vec<MapLinkRec>,
    pub n_links: u32,
}

fn branch_of<T: ReadTxn>(txn: &T, tgt: &Tgt, kind: Kind) -> Option<BranchPtr> {
    ops::resolve(txn, tgt, kind)
}

fn is_seq(k: Kind) -> bool {
    matches!(k, Kind::Text | Kind::XmlText | Kind::Array | Kind::XmlFragment | Kind::XmlElement)
}

pub fn pre_txn(w: &mut World, n: usize) {
    let o = crate::seqmon::observe_seq(&w.nodes[n].doc.transact());
    crate::seqmon::set_pre(o);
}

pub fn post_txn(w: &mut World, n: usize, kind: &TxnKind, uid: Option<usize>) -> VResult {
    // the C04 machinery rides along (attribution + order relation keep the workload honest)
    let prof = w.cfg.profile.clone();
    if let Some(e) = w.mon.sp.seq.placement_err.take() {
        return Err(viol(&format!("{}.placement", prof), format!("node {}: {}", n, e)));
    }
    let obs = crate::seqmon::observe_seq(&w.nodes[n].doc.transact());
    crate::seqmon::attribute_seq(w, n, kind, uid, &obs);
    w.stats.oracle_evals += 1;
    check_node(w, n)
}

pub fn at_quiescence(w: &mut World) -> VResult {
    for n in 0..w.nodes.len() {
        check_node(w, n)?;
    }
    Ok(())
}

fn check_node(w: &mut World, n: usize) -> VResult {
    if w.cfg.profile == "sticky" {
        check_stickies(w, n)
    } else {
        check_quotes(w, n)
    }
}

// ---- C14 -----------------------------------------------------------------------------------------

fn check_stickies(w: &mut World, n: usize) -> VResult {
    let doc = w.nodes[n].doc.clone();
    let ok = doc.offset_kind();
    let txn = doc.transact();
    let mut probes: Vec<&'static str> = Vec::new();
    for r in w.mon.sticky.stickies.iter() {
        let Some(ptr) = branch_of(&txn, &r.cont, r.kind) else { continue };
        let units = units_of(&ptr);
        let total: u32 = units.iter().filter(|u| u.visible()).map(|u| u.len(ok)).sum();
        let expected = match r.anchor {
            None => {
                if r.after {
                    total
                } else {
                    0
                }
            }
            Some(a) => {
                let Some(mut p) = pos_of(&units, a) else { continue }; // the anchoring element is not known here yet
                // an element whose deletion was undone lives on in its copy (Item::redone, local
                // to the replica that ran the undo manager)
                let mut at = a;
                let cont_dbg = r.cont.clone();
                let mut lost = false;
                let mut hops = 0;
                while let Some(r) = units[p].redone {
                    let r = (r.0, r.1 + (at.1 - units[p].clock));
                    match pos_of(&units, r) {
                        Some(q) => {
                            // the copy of an element is that element: same value (the hook shows
                            // the redone link per item; inside a split item it must have moved on)
                            if units[p].val.is_some() && units[q].val.is_some() && is_value(&units[p]) && is_value(&units[q]) && units[p].val != units[q].val && units[p].ch.is_some() == units[q].ch.is_some() && at.1 == units[p].clock {
                                return Err(viol(
                                    "sticky.redone-link",
                                    format!(
                                        "node {}: element {:?} ({:?}) of {:?} was deleted and restored by undo, but its redone link leads to {:?} ({:?}): a sticky index anchored there follows it to the wrong element",
                                        n, at, units[p].val, cont_dbg, r_dbg(r), units[q].val
                                    ),
                                ));
                            }
                            p = q;
                            at = r;
                        }
                        None => {
                            lost = true; // the copy lives in a re-created parent
                            break;
                        }
                    }
                    hops += 1;
                    if hops > 64 {
                        lost = true;
                        break;
                    }
                }
                if lost {
                    continue;
                }
                if hops > 0 {
                    probes.push("sticky.anchor-redone");
                }
                let before: u32 = units[..p].iter().filter(|u| u.visible()).map(|u| u.len(ok)).sum();
                if units[p].visible() {
                    probes.push("sticky.anchor-visible");
                    if r.after {
                        before
                    } else {
                        before + units[p].len(ok)
                    }
                } else {
                    probes.push("sticky.anchor-deleted");
                    before
                }
            }
        };
        let got = r.si.get_offset(&txn);
        match got {
            Some(off) if off.index == expected => {}
            other => {
                let vis: String = units.iter().filter(|u| u.visible()).map(|u| u.val.clone().unwrap_or_default()).collect::<Vec<_>>().join("");
                return Err(viol(
                    if r.made_bytes_nonascii || (ok == OffsetKind::Bytes && vis.chars().any(|c| c.len_utf8() != c.len_utf16())) {
                        "sticky.offset-bytes-nonascii"
                    } else {
                        "sticky.offset"
                    },
                    format!(
                        "node {} ({:?} offsets): sticky index created at event {} in {:?} (assoc {}, anchor element {:?}) resolves to {:?}, expected {} — visible content {:?}, anchor {}",
                        n,
                        ok,
                        r.eid,
                        r.cont,
                        if r.after { "After" } else { "Before" },
                        r.anchor,
                        other.map(|o| o.index),
                        expected,
                        vis,
                        match r.anchor.and_then(|a| pos_of(&units, a)) {
                            Some(p) if units[p].visible() => "visible",
                            Some(_) => "deleted",
                            None => "none",
                        }
                    ),
                ));
            }
        }
    }
    drop(txn);
    for p in probes {
        w.probe(p);
    }
    Ok(())
}

/// undo / redo of node 0's own transactions (every root in scope, one capture step per event)
pub fn sticky_undo(w: &mut World, undo: bool) -> VResult {
    use yrs::undo::{Options, UndoManager};
    if w.mon.sticky.um.is_none() {
        let clock = Arc::new(AtomicU64::new(10_000));
        let mut tracked = std::collections::HashSet::new();
        tracked.insert(yrs::Origin::from("user"));
        let opts: Options<()> = Options {
            capture_timeout_millis: 500,
            tracked_origins: tracked,
            capture_transaction: None,
            timestamp: Arc::new(crate::undomon::SimClock(clock.clone())),
            init_undo_stack: Vec::new(),
            init_redo_stack: Vec::new(),
        };
        let doc = w.nodes[0].doc.clone();
        let mut um = UndoManager::with_options(opts);
        um.expand_scope(&doc, &doc.get_or_insert_text(dump::ROOT_TEXT));
        um.expand_scope(&doc, &doc.get_or_insert_array(dump::ROOT_ARRAY));
        um.expand_scope(&doc, &doc.get_or_insert_map(dump::ROOT_MAP));
        um.expand_scope(&doc, &doc.get_or_insert_xml_fragment(dump::ROOT_XML));
        w.mon.sticky.um = Some((um, clock));
        return Ok(()); // from now on node 0's transactions are captured
    }
    let pre = crate::monitors::pre_txn(w, 0);
    {
        let (um, clock) = w.mon.sticky.um.as_mut().unwrap();
        clock.fetch_add(2_000, Ordering::SeqCst);
        if undo {
            um.undo_blocking();
        } else {
            um.redo_blocking();
        }
        clock.fetch_add(2_000, Ordering::SeqCst);
    }
    w.stats.f_clock += 1;
    let uid = w.collect_emission(0, true)?;
    crate::monitors::post_txn(w, 0, TxnKind::Undo, uid, pre, &[])
}

fn create_sticky(w: &mut World, n: usize, a: &[u64], s: &[String]) -> VResult {
    let Some(tj) = s.first() else { return Ok(()) };
    let Ok(cont) = serde_json::from_str::<Tgt>(tj) else { return Ok(()) };
    let doc = w.nodes[n].doc.clone();
    let ok = doc.offset_kind();
    let txn = doc.transact();
    let Some((ptr, kind)) = ops::resolve_any(&txn, &cont) else { return Ok(()) };
    if !is_seq(kind) {
        return Ok(());
    }
    let units = units_of(&ptr);
    let vis: Vec<usize> = (0..units.len()).filter(|i| units[*i].visible()).collect();
    let p = (a.first().copied().unwrap_or(0) as usize) % (vis.len() + 1);
    let after = a.get(1).copied().unwrap_or(0) == 0;
    let ship = a.get(2).copied().unwrap_or(0);
    let index: u32 = vis[..p].iter().map(|i| units[*i].len(ok)).sum();
    let assoc = if after { Assoc::After } else { Assoc::Before };
    let si = match kind {
        Kind::Text => TextRef::from(ptr).sticky_index(&txn, index, assoc),
        Kind::XmlText => XmlTextRef::from(ptr).sticky_index(&txn, index, assoc),
        Kind::Array => ArrayRef::from(ptr).sticky_index(&txn, index, assoc),
        _ => XmlFragmentRef::from(ptr).sticky_index(&txn, index, assoc),
    };
    drop(txn);
    let Some(si) = si else {
        // (After at the very end cannot be created: the API returns None)
        w.probe("sticky.create-none");
        return Ok(());
    };
    // survives binary and JSON serialization
    let si = match ship {
        1 => match StickyIndex::decode_v1(&si.encode_v1()) {
            Ok(x) if x == si => x,
            other => {
                return Err(viol(
                    "sticky.roundtrip",
                    format!("sticky index {:?} changed by binary encode/decode: {:?}", si, other.ok()),
                ))
            }
        },
        2 => {
            let j = serde_json::to_string(&si).unwrap_or_default();
            match serde_json::from_str::<StickyIndex>(&j) {
                Ok(x) if x == si => x,
                other => {
                    return Err(viol(
                        "sticky.roundtrip",
                        format!("sticky index {:?} changed by JSON round trip ({}): {:?}", si, j, other.ok()),
                    ))
                }
            }
        }
        _ => si,
    };
    let anchor = if after {
        vis.get(p).map(|i| (units[*i].client, units[*i].clock))
    } else if p > 0 {
        let u = &units[vis[p - 1]];
        Some((u.client, u.clock))
    } else {
        None
    };
    if vis.is_empty() {
        w.probe("sticky.on-empty-collection");
    }
    let made_bytes_nonascii = ok == OffsetKind::Bytes && units.iter().any(|u| u.ch.map(|c| c.len_utf8() != c.len_utf16()).unwrap_or(false));
    w.mon.sticky.stickies.push(StickyRec {
        si,
        cont,
        kind,
        after,
        anchor,
        eid: w.cur_eid,
        made_bytes_nonascii,
    });
    check_stickies(w, n)
}

// ---- C20 -----------------------------------------------------------------------------------------

fn deref_quote<T: ReadTxn>(txn: &T, link: BranchPtr, kind: Kind) -> String {
    match kind {
        Kind::Text => WeakRef::<TextRef>::from(link).get_string(txn),
        Kind::XmlText => {
            // unformatted source text: the plain string
            let w = WeakRef::<XmlTextRef>::from(link);
            w.get_string(txn)
        }
        _ => {
            let w = WeakRef::<ArrayRef>::from(link);
            let vals: Vec<Out> = w.unquote(txn).collect();
            vals.iter()
                .map(|o| match o {
                    Out::Any(a) => dump::any_str(a),
                    other => {
                        let mut s = String::new();
                        match other {
                            Out::YText(t) => s = format!("{:?}", Tgt::from_branch_id(yrs::SharedRef::hook(t).id())),
                            Out::YArray(t) => s = format!("{:?}", Tgt::from_branch_id(yrs::SharedRef::hook(t).id())),
                            Out::YMap(t) => s = format!("{:?}", Tgt::from_branch_id(yrs::SharedRef::hook(t).id())),
                            Out::YXmlElement(t) => s = format!("{:?}", Tgt::from_branch_id(yrs::SharedRef::hook(t).id())),
                            Out::YXmlText(t) => s = format!("{:?}", Tgt::from_branch_id(yrs::SharedRef::hook(t).id())),
                            Out::YXmlFragment(t) => s = format!("{:?}", Tgt::from_branch_id(yrs::SharedRef::hook(t).id())),
                            o => dump::dump_out(txn, o, &mut s),
                        }
                        s
                    }
                })
                .collect::<Vec<_>>()
                .join(",")
        }
    }
}

fn expected_quote(units: &[Unit], r: &QuoteRec) -> Option<String> {
    let ps = pos_of(units, r.s)?;
    let pe = pos_of(units, r.e)?;
    if pe < ps {
        return Some(String::new());
    }
    let hi = if r.incl_end { pe + 1 } else { pe };
    let vals: Vec<String> = units[ps..hi.max(ps)].iter().filter(|u| u.visible()).map(|u| u.val.clone().unwrap_or_default()).collect();
    Some(if matches!(r.kind, Kind::Text | Kind::XmlText) { vals.join("") } else { vals.join(",") })
}

fn link_ptr<T: ReadTxn>(txn: &T, link: &Tgt) -> Option<BranchPtr> {
    let ptr = link.to_branch_id().get_branch(txn)?;
    if ptr.is_deleted() {
        return None;
    }
    match ptr.type_ref() {
        yrs::types::TypeRef::WeakLink(_) => Some(ptr),
        _ => None,
    }
}

fn check_quotes(w: &mut World, n: usize) -> VResult {
    let doc = w.nodes[n].doc.clone();
    let txn = doc.transact();
    let mut probes: Vec<&'static str> = Vec::new();
    let mut updates: Vec<(usize, String)> = Vec::new();
    let mut softs: Vec<Violation> = Vec::new();
    for (qi, r) in w.mon.sticky.quotes.iter().enumerate() {
        let Some(lp) = link_ptr(&txn, &r.link) else { continue };
        let Some(src) = branch_of(&txn, &r.src, r.kind) else { continue };
        let units = units_of(&src);
        let Some(expected) = expected_quote(&units, r) else { continue };
        let got = deref_quote(&txn, lp, r.kind);
        let s_vis = pos_of(&units, r.s).map(|p| units[p].visible()).unwrap_or(false);
        let e_vis = pos_of(&units, r.e).map(|p| units[p].visible()).unwrap_or(false);
        probes.push(if s_vis && e_vis { "weak.boundaries-visible" } else { "weak.boundary-deleted" });
        if got != expected {
            return Err(viol(
                "weak.range",
                format!(
                    "node {}: quotation {:?} of {:?} (made at event {} on node {}, boundary elements {:?}..{}{:?}) dereferences to {:?} but the elements visible between its boundary elements are {:?}\n  source: {:?}",
                    n,
                    r.link,
                    r.src,
                    r.eid,
                    r.node,
                    r.s,
                    if r.incl_end { "=" } else { "" },
                    r.e,
                    got,
                    expected,
                    units.iter().map(|u| format!("{}{}", u.val.clone().unwrap_or_default(), if u.visible() { "" } else { "\u{0336}" })).collect::<Vec<_>>().join(" ")
                ),
            ));
        }
        if r.node == n {
            // observers of a quotation are notified when content inside its range changes
            if let Some(last) = &r.last {
                if *last != got && r.fired.load(Ordering::SeqCst) == 0 {
                    // known finding F27 is identified by the change being a pure deletion (the
                    // new content is a subsequence of the old one)
                    let sep = if matches!(r.kind, Kind::Text | Kind::XmlText) { "" } else { "," };
                    let (old_e, new_e): (Vec<String>, Vec<String>) = if sep.is_empty() {
                        (last.chars().map(|c| c.to_string()).collect(), got.chars().map(|c| c.to_string()).collect())
                    } else {
                        (last.split(',').map(|x| x.to_string()).collect(), got.split(',').filter(|x| !x.is_empty()).map(|x| x.to_string()).collect())
                    };
                    let mut it = old_e.iter();
                    let pure_deletion = new_e.len() < old_e.len() && new_e.iter().all(|x| it.any(|y| y == x));
                    let v = viol(
                        if pure_deletion {
                            "weak.not-notified-on-delete"
                        } else if !s_vis || !e_vis {
                            // known finding F28: a boundary element of the range is deleted here
                            "weak.not-notified-deleted-boundary"
                        } else {
                            "weak.not-notified"
                        },
                        format!(
                            "node {}: the content of quotation {:?} changed from {:?} to {:?} but its observer was not notified",
                            n, r.link, last, got
                        ),
                    );
                    if pure_deletion || !s_vis || !e_vis {
                        softs.push(v);
                    } else {
                        return Err(v);
                    }
                }
                if *last != got {
                    probes.push("weak.notified-on-change");
                }
            }
            updates.push((qi, got));
        }
    }
    // links to map entries
    if let Some(m) = txn.get_map(dump::ROOT_MAP) {
        for r in w.mon.sticky.maplinks.iter() {
            let Some(lp) = link_ptr(&txn, &r.link) else { continue };
            let wr = WeakRef::<MapRef>::from(lp);
            let got = wr.try_deref_value(&txn).map(|o| {
                let mut s = String::new();
                dump::dump_out(&txn, &o, &mut s);
                s
            });
            let want = m.get(&txn, &r.key).map(|o| {
                let mut s = String::new();
                dump::dump_out(&txn, &o, &mut s);
                s
            });
            probes.push(if want.is_some() { "weak.maplink-present" } else { "weak.maplink-removed" });
            if got != want {
                return Err(viol(
                    "weak.maplink",
                    format!("node {}: link {:?} to map entry {:?} dereferences to {:?} but the entry is {:?}", n, r.link, r.key, got, want),
                ));
            }
        }
    }
    drop(txn);
    for mut v in softs {
        if w.soft.len() < 4 {
            v.at_eid = w.cur_eid;
            w.soft.push(v);
        }
    }
    for (qi, got) in updates {
        w.mon.sticky.quotes[qi].last = Some(got);
        w.mon.sticky.quotes[qi].fired.store(0, Ordering::SeqCst);
    }
    for p in probes {
        w.probe(p);
    }
    Ok(())
}

/// one local transaction made by a special event; goes through the normal ledger path
fn local_txn<F: FnOnce(&mut yrs::TransactionMut)>(w: &mut World, n: usize, f: F) -> VResult {
    let pre = crate::monitors::pre_txn(w, n);
    {
        let doc = w.nodes[n].doc.clone();
        let mut txn = doc.transact_mut();
        f(&mut txn);
    }
    let uid = w.collect_emission(n, true)?;
    // the C04 attribution must not see this as a tagged change: PRE_SEQ was set by pre_txn
    crate::monitors::post_txn(w, n, TxnKind::Local, uid, pre, &[])
}

fn create_quote(w: &mut World, n: usize, a: &[u64], s: &[String]) -> VResult {
    let Some(tj) = s.first() else { return Ok(()) };
    let Ok(src) = serde_json::from_str::<Tgt>(tj) else { return Ok(()) };
    let doc = w.nodes[n].doc.clone();
    let ok = doc.offset_kind();
    let (kind, s_id, e_id, lo, hi, incl) = {
        let txn = doc.transact();
        let Some((ptr, kind)) = ops::resolve_any(&txn, &src) else { return Ok(()) };
        if !matches!(kind, Kind::Text | Kind::XmlText | Kind::Array) {
            return Ok(());
        }
        let units = units_of(&ptr);
        let vis: Vec<usize> = (0..units.len()).filter(|i| units[*i].visible()).collect();
        if vis.is_empty() {
            return Ok(());
        }
        let start = (a.first().copied().unwrap_or(0) as usize) % vis.len();
        let incl = a.get(2).copied().unwrap_or(0) == 0;
        let span = (a.get(1).copied().unwrap_or(0) as usize) % (vis.len() - start);
        // inclusive: start..=start+span ; exclusive: start..start+span (span >= 1, end index must exist)
        let end = start + span;
        if !incl && span == 0 {
            return Ok(());
        }
        let off = |k: usize| -> u32 { vis[..k].iter().map(|i| units[*i].len(ok)).sum() };
        let su = &units[vis[start]];
        let eu = &units[vis[end]];
        // An inclusive end is given as the offset of the last code unit of the last element
        // (UTF-16 documents). In a byte-counting document the library maps the offset of the
        // element's first byte to its first UTF-16 unit, which designates the whole element only
        // if that is a single unit: an inclusive end on an astral character is not expressible there.
        let hi = if incl {
            match ok {
                OffsetKind::Utf16 => off(end) + eu.len(ok) - 1,
                OffsetKind::Bytes => {
                    if eu.clocks > 1 {
                        return Ok(());
                    }
                    off(end)
                }
            }
        } else {
            off(end)
        };
        (kind, (su.client, su.clock), (eu.client, eu.clock), off(start), hi, incl)
    };
    let key = format!("q{}", w.mon.sticky.n_links);
    w.mon.sticky.n_links += 1;
    let mut created: Option<Tgt> = None;
    let mut err: Option<String> = None;
    local_txn(w, n, |txn| {
        let Some(ptr) = ops::resolve(txn, &src, kind) else { return };
        let m = match txn.get_map(dump::ROOT_MAP) {
            Some(m) => m,
            None => return,
        };
        macro_rules! doq {
            ($t:ty) => {{
                let r = <$t>::from(ptr);
                let q = if incl { r.quote(txn, lo..=hi) } else { r.quote(txn, lo..hi) };
                match q {
                    Ok(p) => {
                        let l = m.insert(txn, key.as_str(), p);
                        created = Some(Tgt::from_branch_id(yrs::SharedRef::hook(&l).id()));
                    }
                    Err(e) => err = Some(e.to_string()),
                }
            }};
        }
        match kind {
            Kind::Text => doq!(TextRef),
            Kind::XmlText => doq!(XmlTextRef),
            _ => doq!(ArrayRef),
        }
    })?;
    if let Some(e) = err {
        return Err(viol(
            "weak.quote-error",
            format!("node {}: quoting the in-range {} {}..{}{} of {:?} failed: {}", n, if incl { "inclusive" } else { "exclusive" }, lo, if incl { "=" } else { "" }, hi, src, e),
        ));
    }
    let Some(link) = created else { return Ok(()) };
    // observer on the creating replica
    let fired = Arc::new(AtomicU64::new(0));
    let sub = {
        let txn = doc.transact();
        link_ptr(&txn, &link).map(|lp| {
            let f = fired.clone();
            let wr = WeakRef::<BranchPtr>::from(lp);
            wr.observe(move |_, _| {
                f.fetch_add(1, Ordering::SeqCst);
            })
        })
    };
    w.mon.sticky.quotes.push(QuoteRec {
        link,
        src,
        kind,
        s: s_id,
        e: e_id,
        incl_end: incl,
        node: n,
        fired,
        last: None,
        sub,
        eid: w.cur_eid,
    });
    check_quotes(w, n)
}

fn delete_quote(w: &mut World, n: usize, a: &[u64]) -> VResult {
    if w.mon.sticky.quotes.is_empty() {
        return Ok(());
    }
    let qi = (a.first().copied().unwrap_or(0) as usize) % w.mon.sticky.quotes.len();
    let (link, src, kind) = {
        let r = &w.mon.sticky.quotes[qi];
        (r.link.clone(), r.src.clone(), r.kind)
    };
    let doc = w.nodes[n].doc.clone();
    let before = {
        let txn = doc.transact();
        if link_ptr(&txn, &link).is_none() {
            return Ok(());
        }
        branch_of(&txn, &src, kind).map(|p| units_of(&p).iter().filter(|u| u.visible()).map(|u| u.val.clone().unwrap_or_default()).collect::<Vec<_>>())
    };
    // find the key holding this link
    let key = {
        let txn = doc.transact();
        let Some(m) = txn.get_map(dump::ROOT_MAP) else { return Ok(()) };
        let mut found = None;
        for (k, v) in m.iter(&txn) {
            if let Out::YWeakLink(wl) = v {
                if Tgt::from_branch_id(yrs::SharedRef::hook(&wl).id()) == link {
                    found = Some(k.to_string());
                }
            }
        }
        found
    };
    let Some(key) = key else { return Ok(()) };
    local_txn(w, n, |txn| {
        if let Some(m) = txn.get_map(dump::ROOT_MAP) {
            m.remove(txn, &key);
        }
    })?;
    let after = {
        let txn = doc.transact();
        branch_of(&txn, &src, kind).map(|p| units_of(&p).iter().filter(|u| u.visible()).map(|u| u.val.clone().unwrap_or_default()).collect::<Vec<_>>())
    };
    w.probe("weak.quote-deleted");
    if before != after {
        return Err(viol(
            "weak.delete-touched-source",
            format!("node {}: deleting quotation {:?} changed its source {:?}: {:?} -> {:?}", n, link, src, before, after),
        ));
    }
    Ok(())
}

fn map_write(w: &mut World, n: usize, a: &[u64], s: &[String], del: bool) -> VResult {
    let key = s.first().cloned().unwrap_or_else(|| "d0".into());
    let v = a.first().copied().unwrap_or(0) as i64;
    local_txn(w, n, |txn| {
        if let Some(m) = txn.get_map(dump::ROOT_MAP) {
            if del {
                m.remove(txn, &key);
            } else {
                m.insert(txn, key.as_str(), yrs::Any::BigInt(v));
            }
        }
    })
}

fn map_link(w: &mut World, n: usize, s: &[String]) -> VResult {
    let key = s.first().cloned().unwrap_or_else(|| "d0".into());
    let lkey = format!("l{}", w.mon.sticky.n_links);
    w.mon.sticky.n_links += 1;
    let mut created = None;
    local_txn(w, n, |txn| {
        if let Some(m) = txn.get_map(dump::ROOT_MAP) {
            if let Some(p) = m.link(txn, &key) {
                let l = m.insert(txn, lkey.as_str(), p);
                created = Some(Tgt::from_branch_id(yrs::SharedRef::hook(&l).id()));
            }
        }
    })?;
    if let Some(link) = created {
        w.mon.sticky.maplinks.push(MapLinkRec { link, key });
    }
    check_quotes(w, n)
}

// ---- events --------------------------------------------------------------------------------------

pub fn draw(w: &mut World) -> Option<Ev> {
    let n = w.rng.idx(w.nodes.len());
    let types: Vec<ops::TypeInfo> = ops::walk(&w.nodes[n].doc.transact()).into_iter().filter(|t| is_seq(t.kind)).collect();
    if w.cfg.profile == "sticky" {
        if types.is_empty() {
            return None;
        }
        if w.cfg.sticky_undo && w.rng.chance(30) {
            return Some(Ev::Special { n: 0, k: if w.rng.chance(65) { "sundo" } else { "sredo" }.into(), a: vec![], s: vec![] });
        }
        let t = w.rng.pick(&types).clone();
        let pos = match w.rng.below(5) {
            0 => 0,
            1 => t.len as u64,
            _ => w.rng.below(t.len as u64 + 1),
        };
        return Some(Ev::Special {
            n,
            k: "sticky".into(),
            a: vec![pos, w.rng.below(2), w.rng.below(3)],
            s: vec![serde_json::to_string(&t.tgt).unwrap()],
        });
    }
    // weak
    match w.rng.below(10) {
        0..=4 => {
            let qs: Vec<ops::TypeInfo> = types.into_iter().filter(|t| matches!(t.kind, Kind::Text | Kind::XmlText | Kind::Array) && t.len > 0).collect();
            if qs.is_empty() {
                return None;
            }
            let t = w.rng.pick(&qs).clone();
            let start = w.rng.below(t.len as u64);
            let span = match w.rng.below(4) {
                0 => 0,
                _ => w.rng.below(t.len as u64 - start),
            };
            Some(Ev::Special {
                n,
                k: "quote".into(),
                a: vec![start, span, w.rng.below(2)],
                s: vec![serde_json::to_string(&t.tgt).unwrap()],
            })
        }
        5 => Some(Ev::Special { n, k: "qdelete".into(), a: vec![w.rng.below(8)], s: vec![] }),
        6..=7 => Some(Ev::Special { n, k: "mapset".into(), a: vec![w.tags.int() as u64], s: vec![format!("d{}", w.rng.below(3))] }),
        8 => Some(Ev::Special { n, k: "mapdel".into(), a: vec![], s: vec![format!("d{}", w.rng.below(3))] }),
        _ => Some(Ev::Special { n, k: "maplink".into(), a: vec![], s: vec![format!("d{}", w.rng.below(3))] }),
    }
}

pub fn exec(w: &mut World, n: usize, k: &str, a: &[u64], s: &[String]) -> VResult {
    match k {
        "sticky" => create_sticky(w, n, a, s),
        "sundo" => sticky_undo(w, true),
        "sredo" => sticky_undo(w, false),
        "quote" => create_quote(w, n, a, s),
        "qdelete" => delete_quote(w, n, a),
        "mapset" => map_write(w, n, a, s, false),
        "mapdel" => map_write(w, n, a, s, true),
        "maplink" => map_link(w, n, s),
        _ => Ok(()),
    }
}
