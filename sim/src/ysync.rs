//! C18 — y-sync handshake and awareness. Own small world: 2 peers (or 3 with a relaying server in
//! the middle), each an `Awareness` over a `Doc`, driven only through `DefaultProtocol::start` /
//! `handle` over per-direction FIFO reliable channels; the scheduler interleaves the directions
//! with local edits made during the handshake, connection resets, awareness changes, heartbeats,
//! provider-level timeouts, clock skew and jumps.

use crate::gen::{self, Tags};
use crate::ops;
use crate::profile;
use crate::rng::Rng;
use crate::run::RunOutput;
use crate::world::*;
use std::collections::{BTreeMap, VecDeque};
use std::sync::atomic::{AtomicU64, Ordering};
use std::sync::{Arc, Mutex};
use yrs::block::ClientID;
use yrs::encoding::read::Cursor;
use yrs::sync::awareness::AwarenessUpdate;
use yrs::sync::protocol::MessageReader;
use yrs::sync::{Awareness, Clock, DefaultProtocol, Message, Protocol, SyncMessage};
use yrs::updates::decoder::{Decode, DecoderV1};
use yrs::updates::encoder::{Encode, Encoder, EncoderV1};
use yrs::{ReadTxn, Subscription, Transact};

struct PeerClock {
    base: Arc<AtomicU64>,
    skew: Arc<AtomicU64>,
}
impl Clock for PeerClock {
    fn now(&self) -> u64 {
        self.base.load(Ordering::SeqCst) + self.skew.load(Ordering::SeqCst)
    }
}

struct Peer {
    aw: Awareness,
    outbox: Arc<Mutex<Vec<Vec<u8>>>>,
    aw_changes: Arc<Mutex<Vec<u64>>>,
    skew: Arc<AtomicU64>,
    _subs: Vec<Subscription>,
    /// last (clock, json) seen per client: monotonicity monitor
    seen: BTreeMap<u64, (u32, Option<String>)>,
}

struct Conn {
    a: usize,
    b: usize,
    up: bool,
    q_ab: VecDeque<Vec<u8>>,
    q_ba: VecDeque<Vec<u8>>,
}

struct YWorld {
    cfg: RunCfg,
    rng: Rng,
    peers: Vec<Peer>,
    conns: Vec<Conn>,
    base: Arc<AtomicU64>,
    tags: Tags,
    trace: Vec<TraceEv>,
    stats: Stats,
    /// owner-originated awareness updates (for the order-insensitivity check)
    owner_updates: Vec<AwarenessUpdate>,
    txns: u32,
    eid: u32,
}

fn probe(st: &mut Stats, name: &str) {
    *st.probes.entry(name.to_string()).or_insert(0) += 1;
}

fn states_of(aw: &Awareness) -> BTreeMap<u64, (u32, Option<String>)> {
    let mut m = BTreeMap::new();
    for (id, st) in aw.iter() {
        m.insert(id.get(), (st.clock, st.data.as_ref().map(|s| s.to_string())));
    }
    m
}

fn encode_msg(m: &Message) -> Vec<u8> {
    let mut e = EncoderV1::new();
    m.encode(&mut e);
    e.to_vec()
}

fn check_wire(m: &Message) -> VResult {
    let bytes = encode_msg(m);
    let mut dec = DecoderV1::new(Cursor::new(&bytes));
    let mut reader = MessageReader::new(&mut dec);
    match reader.next() {
        Some(Ok(back)) if &back == m => Ok(()),
        other => Err(viol(
            "ysync.wire",
            format!("protocol message {:?} does not survive encode/decode: got {:?}", m, other.map(|r| r.map_err(|e| e.to_string()))),
        )),
    }
}

impl YWorld {
    fn new(cfg: RunCfg, gen_seed: u64) -> YWorld {
        let base = Arc::new(AtomicU64::new(1_000_000));
        let mut peers = Vec::new();
        for c in cfg.nodes.iter() {
            let doc = make_doc(c);
            let skew = Arc::new(AtomicU64::new((c.client_id % 7) * 1000));
            let mut aw = Awareness::with_clock(
                doc.clone(),
                PeerClock {
                    base: base.clone(),
                    skew: skew.clone(),
                },
            );
            let outbox = Arc::new(Mutex::new(Vec::new()));
            let o = outbox.clone();
            let s1 = doc.observe_update_v1(move |_, e| o.lock().unwrap().push(e.update.clone())).unwrap();
            let aw_changes = Arc::new(Mutex::new(Vec::new()));
            let ch = aw_changes.clone();
            let s2 = aw.on_update(move |_, e, _| {
                let mut g = ch.lock().unwrap();
                for c in e.all_changes() {
                    g.push(c.get());
                }
            });
            peers.push(Peer {
                aw,
                outbox,
                aw_changes,
                skew,
                _subs: vec![s1, s2],
                seen: BTreeMap::new(),
            });
        }
        let mut conns = Vec::new();
        for i in 0..peers.len() - 1 {
            conns.push(Conn {
                a: i,
                b: i + 1,
                up: false,
                q_ab: VecDeque::new(),
                q_ba: VecDeque::new(),
            });
        }
        YWorld {
            cfg,
            rng: Rng::new(gen_seed),
            peers,
            conns,
            base,
            tags: Tags::default(),
            trace: Vec::new(),
            stats: Stats::default(),
            owner_updates: Vec::new(),
            txns: 0,
            eid: 0,
        }
    }

    fn send(&mut self, from: usize, ci: usize, m: &Message) -> VResult {
        check_wire(m)?;
        let c = &mut self.conns[ci];
        if !c.up {
            return Ok(());
        }
        let bytes = encode_msg(m);
        if c.a == from {
            c.q_ab.push_back(bytes);
        } else {
            c.q_ba.push_back(bytes);
        }
        Ok(())
    }

    /// provider logic: forward document updates and awareness changes on every open connection
    fn flush_peer(&mut self, p: usize) -> VResult {
        let updates: Vec<Vec<u8>> = std::mem::take(&mut *self.peers[p].outbox.lock().unwrap());
        let changes: Vec<u64> = std::mem::take(&mut *self.peers[p].aw_changes.lock().unwrap());
        let cis: Vec<usize> = (0..self.conns.len()).filter(|i| self.conns[*i].a == p || self.conns[*i].b == p).collect();
        for u in updates {
            let m = Message::Sync(SyncMessage::Update(u));
            for ci in cis.iter() {
                self.send(p, *ci, &m)?;
            }
        }
        if !changes.is_empty() {
            let mut ids: Vec<u64> = changes;
            ids.sort();
            ids.dedup();
            if let Ok(up) = self.peers[p].aw.update_with_clients(ids.iter().map(|c| ClientID::new(*c))) {
                let m = Message::Awareness(up);
                for ci in cis.iter() {
                    self.send(p, *ci, &m)?;
                }
            }
        }
        Ok(())
    }

    fn monitor_awareness(&mut self, p: usize, what: &str) -> VResult {
        let now = states_of(&self.peers[p].aw);
        for (c, (clock, _)) in now.iter() {
            if let Some((old, _)) = self.peers[p].seen.get(c) {
                if clock < old {
                    return Err(viol(
                        "ysync.aw-clock-backwards",
                        format!("peer {}: awareness clock of client {} went from {} to {} ({})", p, c, old, clock, what),
                    ));
                }
            }
        }
        self.peers[p].seen = now;
        Ok(())
    }

    fn deliver(&mut self, ci: usize, ab: bool) -> VResult {
        let frame = {
            let c = &mut self.conns[ci];
            if ab {
                c.q_ab.pop_front()
            } else {
                c.q_ba.pop_front()
            }
        };
        let Some(frame) = frame else { return Ok(()) };
        let to = if ab { self.conns[ci].b } else { self.conns[ci].a };
        self.stats.delivers += 1;
        // what does the frame carry? (awareness invariants need the content)
        let mut aw_updates: Vec<AwarenessUpdate> = Vec::new();
        {
            let mut dec = DecoderV1::new(Cursor::new(&frame));
            let mut reader = MessageReader::new(&mut dec);
            while let Some(Ok(m)) = reader.next() {
                if let Message::Awareness(u) = m {
                    aw_updates.push(u);
                }
            }
        }
        let before = states_of(&self.peers[to].aw);
        let own = self.peers[to].aw.client_id().get();
        let responses = match DefaultProtocol.handle(&mut self.peers[to].aw, &frame) {
            Ok(r) => r,
            Err(e) => {
                return Err(viol(
                    "ysync.handle-error",
                    format!("peer {} could not handle a frame produced by its peer's protocol: {}", to, e),
                ))
            }
        };
        self.stats.oracle_evals += 1;
        let after = states_of(&self.peers[to].aw);
        // a lower clock never replaces a higher one; own live state is never erased
        for u in aw_updates.iter() {
            for (c, entry) in u.clients.iter() {
                let c = c.get();
                if let Some((bc, bj)) = before.get(&c) {
                    if entry.clock < *bc && after.get(&c) != Some(&(*bc, bj.clone())) {
                        return Err(viol(
                            "ysync.aw-lower-replaced-higher",
                            format!(
                                "peer {}: awareness entry of client {} with clock {} replaced the state with higher clock {}: {:?} -> {:?}",
                                to,
                                c,
                                entry.clock,
                                bc,
                                before.get(&c),
                                after.get(&c)
                            ),
                        ));
                    }
                }
            }
            probe(&mut self.stats, "ysync.aw-update-applied");
        }
        if let Some((_, Some(_))) = before.get(&own) {
            if !matches!(after.get(&own), Some((_, Some(_)))) {
                return Err(viol(
                    "ysync.aw-own-state-erased",
                    format!("peer {}: a remote message erased its own live awareness state: {:?} -> {:?}", to, before.get(&own), after.get(&own)),
                ));
            }
        }
        self.monitor_awareness(to, "remote update")?;
        // idempotence: applying the same awareness update again changes nothing
        for u in aw_updates.iter() {
            let s1 = states_of(&self.peers[to].aw);
            if self.peers[to].aw.apply_update(u.clone()).is_err() {
                continue;
            }
            let s2 = states_of(&self.peers[to].aw);
            if s1 != s2 {
                return Err(viol(
                    "ysync.aw-idempotent",
                    format!("peer {}: applying the same awareness update twice is not the same as once: {:?} -> {:?}", to, s1, s2),
                ));
            }
            // whatever that re-application announced is not news
            self.peers[to].aw_changes.lock().unwrap().clear();
        }
        for m in responses.iter() {
            self.send(to, ci, m)?;
        }
        self.flush_peer(to)
    }

    fn exec(&mut self, tev: &TraceEv) -> VResult {
        self.eid = tev.eid;
        self.stats.events += 1;
        match &tev.ev {
            Ev::Txn { n, origin: _, ops } => {
                if *n >= self.peers.len() {
                    return Ok(());
                }
                {
                    let doc = self.peers[*n].aw.doc().clone();
                    let mut txn = doc.transact_mut();
                    for op in ops {
                        ops::exec_op(&mut txn, op);
                    }
                }
                self.stats.txns += 1;
                self.flush_peer(*n)
            }
            Ev::Special { n, k, a, s } => self.special(*n, k, a, s),
            _ => Ok(()),
        }
    }

    fn special(&mut self, n: usize, k: &str, a: &[u64], s: &[String]) -> VResult {
        let arg = a.first().copied().unwrap_or(0);
        match k {
            "connect" => {
                let ci = (arg as usize) % self.conns.len();
                if self.conns[ci].up {
                    return Ok(());
                }
                self.conns[ci].up = true;
                let (pa, pb) = (self.conns[ci].a, self.conns[ci].b);
                for p in [pa, pb] {
                    let mut e = EncoderV1::new();
                    if let Err(err) = DefaultProtocol.start(&self.peers[p].aw, &mut e) {
                        return Err(viol("ysync.handle-error", format!("peer {} cannot start the protocol: {}", p, err)));
                    }
                    let bytes = e.to_vec();
                    // every message of the opening frame survives encode/decode
                    let mut dec = DecoderV1::new(Cursor::new(&bytes));
                    let mut reader = MessageReader::new(&mut dec);
                    while let Some(r) = reader.next() {
                        match r {
                            Ok(m) => check_wire(&m)?,
                            Err(e) => return Err(viol("ysync.wire", format!("opening frame of peer {} cannot be read back: {}", p, e))),
                        }
                    }
                    let c = &mut self.conns[ci];
                    if c.a == p {
                        c.q_ab.push_back(bytes);
                    } else {
                        c.q_ba.push_back(bytes);
                    }
                }
                probe(&mut self.stats, "ysync.handshake-started");
                Ok(())
            }
            "reset" => {
                let ci = (arg as usize) % self.conns.len();
                let c = &mut self.conns[ci];
                if c.up {
                    if !c.q_ab.is_empty() || !c.q_ba.is_empty() {
                        probe(&mut self.stats, "ysync.reset-with-frames-in-flight");
                    }
                    c.up = false;
                    c.q_ab.clear();
                    c.q_ba.clear();
                    self.stats.f_drop += 1;
                }
                Ok(())
            }
            "deliver" => {
                let ci = (arg as usize) % self.conns.len();
                let ab = a.get(1).copied().unwrap_or(0) == 0;
                self.deliver(ci, ab)
            }
            "clock" => {
                self.base.fetch_add(arg, Ordering::SeqCst);
                self.stats.sim_ms += arg;
                self.stats.f_clock += 1;
                Ok(())
            }
            "skew" => {
                if n < self.peers.len() {
                    self.peers[n].skew.store(arg, Ordering::SeqCst);
                    self.stats.f_clock += 1;
                }
                Ok(())
            }
            "aw-set" | "aw-heartbeat" => {
                if n >= self.peers.len() {
                    return Ok(());
                }
                let json = if k == "aw-heartbeat" {
                    match self.peers[n].aw.local_state_raw() {
                        Some(j) => j.to_string(),
                        None => return Ok(()),
                    }
                } else {
                    s.first().cloned().unwrap_or_else(|| "{}".into())
                };
                self.peers[n].aw.set_local_state_raw(json);
                self.monitor_awareness(n, "local set")?;
                let own = self.peers[n].aw.client_id();
                if let Ok(u) = self.peers[n].aw.update_with_clients([own]) {
                    self.owner_updates.push(u);
                }
                self.flush_peer(n)
            }
            "aw-clear" => {
                if n >= self.peers.len() {
                    return Ok(());
                }
                if self.peers[n].aw.local_state_raw().is_none() {
                    return Ok(());
                }
                self.peers[n].aw.clean_local_state();
                self.monitor_awareness(n, "local clear")?;
                let own = self.peers[n].aw.client_id();
                if let Ok(u) = self.peers[n].aw.update_with_clients([own]) {
                    self.owner_updates.push(u);
                }
                self.flush_peer(n)
            }
            "fragment" => {
                // one transaction that leaves more than a thousand separate deleted ranges of one
                // client: every wire format has to carry a delete set of any size
                if n >= self.peers.len() {
                    return Ok(());
                }
                let count = arg.clamp(10, 3000) as u32;
                {
                    let doc = self.peers[n].aw.doc().clone();
                    let t = doc.get_or_insert_text(crate::dump::ROOT_TEXT);
                    let mut txn = doc.transact_mut();
                    let at = yrs::Text::len(&t, &txn);
                    let s: String = std::iter::repeat("ab").take(count as usize).collect();
                    yrs::Text::insert(&t, &mut txn, at, &s);
                    for i in (0..count).rev() {
                        yrs::Text::remove_range(&t, &mut txn, at + 2 * i, 1);
                    }
                }
                probe(&mut self.stats, "ysync.fragmented-delete-set");
                self.flush_peer(n)
            }
            "aw-timeout" => {
                // provider-level timer (30 s in y-protocols): drop remote clients not heard of for too long
                if n >= self.peers.len() {
                    return Ok(());
                }
                let own = self.peers[n].aw.client_id().get();
                let now = self.base.load(Ordering::SeqCst) + self.peers[n].skew.load(Ordering::SeqCst);
                let stale: Vec<u64> = self.peers[n]
                    .aw
                    .iter()
                    .filter(|(id, st)| id.get() != own && st.data.is_some() && now.saturating_sub(st.last_updated) >= 30_000)
                    .map(|(id, _)| id.get())
                    .collect();
                for c in stale {
                    self.peers[n].aw.remove_state(ClientID::new(c));
                    probe(&mut self.stats, "ysync.aw-timeout-removal");
                }
                self.monitor_awareness(n, "timeout removal")?;
                self.flush_peer(n)
            }
            _ => Ok(()),
        }
    }

    fn step(&mut self) -> Result<bool, Violation> {
        if self.trace.len() as u32 >= self.cfg.max_events {
            return Ok(false);
        }
        let eid = self.trace.len() as u32;
        let np = self.peers.len();
        let nc = self.conns.len() as u64;
        let pending: Vec<(usize, bool)> = (0..self.conns.len())
            .flat_map(|i| {
                let mut v = Vec::new();
                if !self.conns[i].q_ab.is_empty() {
                    v.push((i, true));
                }
                if !self.conns[i].q_ba.is_empty() {
                    v.push((i, false));
                }
                v
            })
            .collect();
        let can_txn = self.txns < self.cfg.max_txns;
        let w = [
            if can_txn { self.cfg.w_txn } else { 0 },
            if pending.is_empty() { 0 } else { self.cfg.w_deliver },
            12, // connect
            self.cfg.w_drop, // reset
            self.cfg.w_special, // awareness
            self.cfg.w_partition, // clock
        ];
        let sp = |n: usize, k: &str, a: Vec<u64>, s: Vec<String>| Ev::Special { n, k: k.into(), a, s };
        let ev = match self.rng.weighted(&w) {
            0 => {
                let n = self.rng.idx(np);
                let count = self.rng.range(1, self.cfg.max_ops_per_txn as u64);
                let mut ops_done = Vec::new();
                {
                    let doc = self.peers[n].aw.doc().clone();
                    let mut txn = doc.transact_mut();
                    for _ in 0..count {
                        let view = ops::walk(&txn);
                        let g = self.cfg.gen.clone();
                        if let Some(op) = gen::gen_op(&mut self.rng, &view, &g, &mut self.tags) {
                            ops::exec_op(&mut txn, &op);
                            ops_done.push(op);
                        }
                    }
                }
                self.txns += 1;
                self.stats.txns += 1;
                self.stats.events += 1;
                self.eid = eid;
                self.trace.push(TraceEv {
                    eid,
                    ev: Ev::Txn { n, origin: None, ops: ops_done },
                });
                self.flush_peer(n).map_err(|mut v| {
                    v.at_eid = eid;
                    v
                })?;
                return Ok(true);
            }
            1 => {
                let (ci, ab) = *self.rng.pick(&pending);
                sp(0, "deliver", vec![ci as u64, if ab { 0 } else { 1 }], vec![])
            }
            2 => sp(0, "connect", vec![self.rng.below(nc)], vec![]),
            3 => sp(0, "reset", vec![self.rng.below(nc)], vec![]),
            4 => {
                let n = self.rng.idx(np);
                if self.rng.chance(2) {
                    let count = *self.rng.pick(&[300u64, 1100, 1500]);
                    let tev = TraceEv { eid, ev: sp(n, "fragment", vec![count], vec![]) };
                    self.trace.push(tev.clone());
                    self.exec(&tev).map_err(|mut v| {
                        v.at_eid = eid;
                        v
                    })?;
                    return Ok(true);
                }
                match self.rng.below(10) {
                    0..=3 => sp(n, "aw-set", vec![], vec![format!("{{\"cursor\":{}}}", self.tags.int())]),
                    4..=5 => sp(n, "aw-heartbeat", vec![], vec![]),
                    6 => sp(n, "aw-clear", vec![], vec![]),
                    _ => sp(n, "aw-timeout", vec![], vec![]),
                }
            }
            _ => {
                if self.rng.chance(70) {
                    sp(0, "clock", vec![*self.rng.pick(&[1_000, 15_000, 31_000, 60_000])], vec![])
                } else {
                    sp(self.rng.idx(np), "skew", vec![self.rng.below(40_000)], vec![])
                }
            }
        };
        let tev = TraceEv { eid, ev };
        self.trace.push(tev.clone());
        self.exec(&tev).map_err(|mut v| {
            v.at_eid = eid;
            v
        })?;
        Ok(true)
    }

    fn quiesce(&mut self) -> VResult {
        // faults off: every connection (re)connects, all frames are delivered in FIFO order
        for ci in 0..self.conns.len() {
            if !self.conns[ci].up {
                self.special(0, "connect", &[ci as u64], &[])?;
            }
        }
        let mut guard = 0;
        loop {
            let mut progressed = false;
            for ci in 0..self.conns.len() {
                for ab in [true, false] {
                    while !(if ab { self.conns[ci].q_ab.is_empty() } else { self.conns[ci].q_ba.is_empty() }) {
                        self.deliver(ci, ab)?;
                        progressed = true;
                        guard += 1;
                        if guard > 20_000 {
                            return Err(viol("ysync.livelock", "message storm after the last fault".into()));
                        }
                    }
                }
            }
            if !progressed {
                break;
            }
        }
        self.stats.quiesce_rounds += 1;
        let dumps: Vec<String> = self.peers.iter().map(|p| doc_dump(p.aw.doc())).collect();
        let svs: Vec<Vec<(u64, u32)>> = self.peers.iter().map(|p| doc_sv(p.aw.doc())).collect();
        for i in 1..dumps.len() {
            if dumps[i] != dumps[0] || svs[i] != svs[0] {
                return Err(viol(
                    "ysync.quiescent",
                    format!(
                        "after the handshake(s) completed and all frames were delivered, peers 0 and {} differ\n  0: {} {:?}\n  {}: {} {:?}",
                        i, dumps[0], svs[0], i, dumps[i], svs[i]
                    ),
                ));
            }
        }
        for (i, p) in self.peers.iter().enumerate() {
            if p.aw.doc().transact().has_missing_updates() {
                return Err(viol("ysync.quiescent", format!("peer {} still reports missing updates after the handshake", i)));
            }
        }
        // order-insensitivity: two fresh observers, same multiset of owner-originated updates, different orders
        if self.owner_updates.len() >= 2 {
            let mk = |id: u64| Awareness::with_clock(yrs::Doc::with_client_id(id), || 0u64);
            let mut o1 = mk(900_001);
            let mut o2 = mk(900_002);
            let mut ups = self.owner_updates.clone();
            let mut r = Rng::new(crate::rng::mix(self.cfg.nodes[0].client_id, ups.len() as u64));
            // timeout removals as third parties broadcast them (y-protocols removeAwarenessStates):
            // a null state under the very clock of the state whose owner went silent
            let mut removals = Vec::new();
            for u in ups.iter() {
                for (id, e) in u.clients.iter() {
                    if e.json.as_ref() != "null" && r.chance(25) {
                        let mut clients = std::collections::HashMap::new();
                        clients.insert(*id, yrs::sync::awareness::AwarenessUpdateEntry { clock: e.clock, json: "null".into() });
                        removals.push(AwarenessUpdate { clients });
                    }
                }
            }
            if !removals.is_empty() {
                probe(&mut self.stats, "ysync.aw-order-with-same-clock-removal");
            }
            ups.extend(removals);
            let mut order: Vec<usize> = (0..ups.len()).collect();
            for i in order.iter() {
                let _ = o1.apply_update(ups[*i].clone());
            }
            r.shuffle(&mut order);
            for i in order.iter() {
                let _ = o2.apply_update(ups[*i].clone());
                // duplicates too
                if r.chance(30) {
                    let _ = o2.apply_update(ups[*i].clone());
                }
            }
            let (s1, s2) = (states_of(&o1), states_of(&o2));
            probe(&mut self.stats, "ysync.aw-order-evaluated");
            if s1 != s2 {
                return Err(viol(
                    "ysync.aw-order",
                    format!(
                        "two fresh observers applied the same {} awareness updates (the owners' own ones and same-clock timeout removals by third parties) in different orders and disagree\n  in order : {:?}\n  shuffled : {:?}",
                        ups.len(),
                        s1,
                        s2
                    ),
                ));
            }
        }
        Ok(())
    }
}

fn draw_cfg(thorough: bool, rng: &mut Rng) -> RunCfg {
    let mut cfg = profile::draw_cfg("ysync", thorough, rng);
    let n = if thorough && rng.chance(50) { 3 } else { 2 };
    cfg.nodes.truncate(n);
    while cfg.nodes.len() < n {
        let id = 100 + cfg.nodes.len() as u64;
        cfg.nodes.push(NodeCfg {
            client_id: id,
            skip_gc: false,
            utf16: true,
            cleanup_fmt: false,
        });
    }
    cfg.gen.subdoc_pct = 0;
    cfg.w_txn = 25;
    cfg.w_deliver = 40;
    cfg.w_drop = *rng.pick(&[0, 3, 8]);
    cfg.w_special = *rng.pick(&[5, 15, 25]);
    cfg.w_partition = *rng.pick(&[0, 4, 8]);
    cfg
}

fn finish(mut w: YWorld, mut violation: Option<Violation>, full: bool) -> RunOutput {
    if violation.is_none() {
        match std::panic::catch_unwind(std::panic::AssertUnwindSafe(|| w.quiesce())) {
            Ok(Ok(())) => {}
            Ok(Err(v)) => violation = Some(v),
            Err(_) => {
                violation = Some(Violation {
                    oracle: "ysync.panic".into(),
                    msg: format!("library panicked during quiescence: {}", crate::cell::take_panic_msg().unwrap_or_default()),
                    at_eid: u32::MAX,
                })
            }
        }
    }
    let mut sig = String::new();
    for t in w.trace.iter() {
        match &t.ev {
            Ev::Txn { n, ops, .. } => sig.push_str(&format!("t{}:{};", n, ops.len())),
            Ev::Special { n, k, a, .. } => sig.push_str(&format!("{}{}{:?};", k, n, a)),
            _ => {}
        }
    }
    let nontrivial = w.stats.delivers >= 4 && w.stats.txns >= 1 && w.stats.oracle_evals >= 4;
    let keep = full || violation.is_some();
    let fh: String = if violation.is_none() { w.peers.iter().map(|p| doc_dump(p.aw.doc())).collect::<Vec<_>>().join("#") } else { String::new() };
    RunOutput {
        violation,
        stats: w.stats.clone(),
        signature: crate::dump::hash64(&sig),
        final_hash: crate::dump::hash64(&fh),
        nontrivial,
        cfg: if keep { Some(w.cfg.clone()) } else { None },
        trace: if keep { Some(w.trace.clone()) } else { None },
    }
}

pub fn run_generated(thorough: bool, cell_seed: u64, full: bool) -> RunOutput {
    let mut rng = Rng::new(cell_seed);
    let cfg = draw_cfg(thorough, &mut rng);
    let mut w = YWorld::new(cfg, rng.next_u64());
    let mut violation = None;
    loop {
        match std::panic::catch_unwind(std::panic::AssertUnwindSafe(|| w.step())) {
            Ok(Ok(true)) => continue,
            Ok(Ok(false)) => break,
            Ok(Err(v)) => {
                violation = Some(v);
                break;
            }
            Err(_) => {
                violation = Some(Violation {
                    oracle: "ysync.panic".into(),
                    msg: format!("library panicked: {}", crate::cell::take_panic_msg().unwrap_or_default()),
                    at_eid: w.trace.last().map(|t| t.eid).unwrap_or(0),
                });
                break;
            }
        }
    }
    finish(w, violation, full)
}

pub fn run_replay(cfg: &RunCfg, _cell_seed: u64, trace: &[TraceEv]) -> RunOutput {
    let mut w = YWorld::new(cfg.clone(), 0);
    let mut violation = None;
    for tev in trace {
        w.trace.push(tev.clone());
        match std::panic::catch_unwind(std::panic::AssertUnwindSafe(|| w.exec(tev))) {
            Ok(Ok(())) => {}
            Ok(Err(mut v)) => {
                v.at_eid = tev.eid;
                violation = Some(v);
                break;
            }
            Err(_) => {
                violation = Some(Violation {
                    oracle: "ysync.panic".into(),
                    msg: format!("library panicked: {}", crate::cell::take_panic_msg().unwrap_or_default()),
                    at_eid: tev.eid,
                });
                break;
            }
        }
    }
    finish(w, violation, true)
}
