//! xoshiro256** + splitmix64, hand-written so that the sequence can never change under us.

#[derive(Clone, Debug)]
pub struct Rng {
    s: [u64; 4],
}

pub fn splitmix64(x: &mut u64) -> u64 {
    *x = x.wrapping_add(0x9E3779B97F4A7C15);
    let mut z = *x;
    z = (z ^ (z >> 30)).wrapping_mul(0xBF58476D1CE4E5B9);
    z = (z ^ (z >> 27)).wrapping_mul(0x94D049BB133111EB);
    z ^ (z >> 31)
}

/// mixes a batch seed and a cell index into a cell seed
pub fn mix(a: u64, b: u64) -> u64 {
    let mut x = a ^ b.wrapping_mul(0xD6E8FEB86659FD93).rotate_left(17);
    let r = splitmix64(&mut x);
    r ^ splitmix64(&mut x)
}

impl Rng {
    pub fn new(seed: u64) -> Self {
        let mut x = seed;
        let s = [
            splitmix64(&mut x),
            splitmix64(&mut x),
            splitmix64(&mut x),
            splitmix64(&mut x),
        ];
        Rng { s }
    }
    /// independent sub-stream (for generator / buggify / corruption operators)
    pub fn fork(&mut self, salt: u64) -> Rng {
        Rng::new(self.next_u64() ^ salt.wrapping_mul(0xA24BAED4963EE407))
    }
    pub fn next_u64(&mut self) -> u64 {
        let r = self.s[1].wrapping_mul(5).rotate_left(7).wrapping_mul(9);
        let t = self.s[1] << 17;
        self.s[2] ^= self.s[0];
        self.s[3] ^= self.s[1];
        self.s[1] ^= self.s[2];
        self.s[0] ^= self.s[3];
        self.s[2] ^= t;
        self.s[3] = self.s[3].rotate_left(45);
        r
    }
    /// uniform in 0..n (n > 0)
    pub fn below(&mut self, n: u64) -> u64 {
        debug_assert!(n > 0);
        // multiply-shift; bias is irrelevant here
        ((self.next_u64() as u128 * n as u128) >> 64) as u64
    }
    pub fn idx(&mut self, n: usize) -> usize {
        self.below(n as u64) as usize
    }
    /// inclusive range
    pub fn range(&mut self, lo: u64, hi: u64) -> u64 {
        lo + self.below(hi - lo + 1)
    }
    pub fn chance(&mut self, percent: u32) -> bool {
        self.below(100) < percent as u64
    }
    pub fn permille(&mut self, p: u32) -> bool {
        self.below(1000) < p as u64
    }
    pub fn pick<'a, T>(&mut self, xs: &'a [T]) -> &'a T {
        &xs[self.idx(xs.len())]
    }
    pub fn shuffle<T>(&mut self, xs: &mut [T]) {
        for i in (1..xs.len()).rev() {
            let j = self.idx(i + 1);
            xs.swap(i, j);
        }
    }
    /// index drawn with the given weights
    pub fn weighted(&mut self, w: &[u32]) -> usize {
        let total: u64 = w.iter().map(|x| *x as u64).sum();
        if total == 0 {
            return 0;
        }
        let mut r = self.below(total);
        for (i, x) in w.iter().enumerate() {
            if r < *x as u64 {
                return i;
            }
            r -= *x as u64;
        }
        w.len() - 1
    }
}
