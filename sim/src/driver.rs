//! driver → workers → cells (DESIGN.md §2.1), evidence and the VIOLATION / KNOWN-FINDING interface.

use crate::cell::{self, CellStatus, Limits};
use crate::known;
use crate::minimise;
use crate::profile;
use crate::rng::mix;
use crate::run::{self, ReplayFile, RunOutput};
use crate::world::{Stats, Violation};
use serde::{Deserialize, Serialize};
use serde_json::{json, Value};
use std::collections::{BTreeMap, HashSet};
use std::io::Read;
use std::time::Instant;

pub const EXIT_OK: i32 = 0;
pub const EXIT_VIOLATION: i32 = 1;
pub const EXIT_HARNESS: i32 = 2;

#[derive(Serialize, Deserialize, Clone, Debug)]
pub enum CellResult {
    Run(RunOutput),
    /// the child died: signal name or broken protocol
    Died(String),
}

pub fn limits_for(_profile: &str) -> Limits {
    Limits::default()
}

/// generated run in a fresh cell
pub fn cell_generated(profile: &str, thorough: bool, cell_seed: u64, full: bool) -> CellResult {
    if profile == "corrupt" {
        return crate::monitors::corrupt_cell(thorough, cell_seed, full);
    }
    if profile == "ysync" {
        let out = cell::run_cell(cell_seed, limits_for(profile), move || {
            let r = crate::ysync::run_generated(thorough, cell_seed, full);
            serde_json::to_vec(&r).unwrap()
        });
        return decode_outcome(out, profile);
    }
    let p = profile.to_string();
    let out = cell::run_cell(cell_seed, limits_for(profile), move || {
        let r = run::run_generated(&p, thorough, cell_seed, full);
        serde_json::to_vec(&r).unwrap()
    });
    decode_outcome(out, profile)
}

pub fn cell_replay(rf: &ReplayFile) -> CellResult {
    if rf.profile == "corrupt" {
        return crate::monitors::corrupt_replay(rf);
    }
    if rf.profile == "ysync" && !(rf.trace.is_empty() && rf.note.starts_with("seed-mode")) {
        let cfg = rf.cfg.clone();
        let trace = rf.trace.clone();
        let seed = rf.cell_seed;
        let out = cell::run_cell(seed, limits_for(&rf.profile), move || {
            let r = crate::ysync::run_replay(&cfg, seed, &trace);
            serde_json::to_vec(&r).unwrap()
        });
        return decode_outcome(out, &rf.profile);
    }
    if rf.trace.is_empty() && rf.note.starts_with("seed-mode") {
        return cell_generated(&rf.profile, rf.tier == "thorough", rf.cell_seed, true);
    }
    let cfg = rf.cfg.clone();
    let trace = rf.trace.clone();
    let seed = rf.cell_seed;
    let out = cell::run_cell(seed, limits_for(&rf.profile), move || {
        let r = run::run_replay(&cfg, seed, &trace);
        serde_json::to_vec(&r).unwrap()
    });
    decode_outcome(out, &rf.profile)
}

pub fn decode_outcome(out: cell::CellOutcome, _profile: &str) -> CellResult {
    match out.status {
        CellStatus::Done => match serde_json::from_slice::<RunOutput>(&out.payload) {
            Ok(r) => CellResult::Run(r),
            Err(e) => CellResult::Died(format!("broken result: {}", e)),
        },
        CellStatus::Panic(m) => CellResult::Died(format!("harness panic: {}", m)),
        CellStatus::Signal(s) => CellResult::Died(format!("killed by {}", cell::signal_name(s))),
        CellStatus::Broken(m) => CellResult::Died(format!("broken cell: {}", m)),
    }
}

#[derive(Serialize, Deserialize, Clone, Debug)]
pub struct Failure {
    pub index: u64,
    pub cell_seed: u64,
    pub violation: Violation,
    pub out: Option<RunOutput>,
}

#[derive(Serialize, Deserialize, Clone, Debug, Default)]
pub struct WorkerReport {
    pub cells: u64,
    pub stats: BTreeMap<String, u64>,
    pub sigs: Vec<u64>,
    pub finals: Vec<u64>,
    pub nontrivial: u64,
    pub failures: Vec<Failure>,
    pub failure_counts: BTreeMap<String, u64>,
    pub sample: Option<Value>,
    pub wall_ms: u64,
}

fn add_stats(acc: &mut BTreeMap<String, u64>, s: &Stats) {
    if let Ok(Value::Object(m)) = serde_json::to_value(s) {
        for (k, v) in m {
            if let Some(x) = v.as_u64() {
                *acc.entry(k).or_insert(0) += x;
            } else if let Value::Object(pm) = v {
                for (pk, pv) in pm {
                    if let Some(x) = pv.as_u64() {
                        *acc.entry(format!("probe:{}", pk)).or_insert(0) += x;
                    }
                }
            }
        }
    }
}

fn arg<'a>(args: &'a [String], name: &str) -> Option<&'a str> {
    args.iter()
        .position(|a| a == name)
        .and_then(|i| args.get(i + 1))
        .map(|s| s.as_str())
}

pub fn main(args: &[String]) -> i32 {
    if !crate::arena::map() {
        eprintln!("ysim: cannot map the fixed-address arena");
        return EXIT_HARNESS;
    }
    // warm process-wide lazies before any cell is forked (dashmap's shard count asks the OS for the
    // available parallelism, which costs milliseconds per fresh process)
    {
        let _aw = yrs::sync::Awareness::with_clock(yrs::Doc::with_client_id(1), || 0u64);
    }
    crate::arena::read_diag_env();
    match args.get(1).map(|s| s.as_str()) {
        Some("batch") => batch(args),
        Some("worker") => worker(args),
        Some("replay") => replay(args),
        Some("run") => run_one(args),
        Some("triage") => triage(args),
        Some("determinism") => determinism(args),
        _ => {
            eprintln!("usage: ysim batch|worker|replay|run|determinism ...");
            EXIT_HARNESS
        }
    }
}

fn worker(args: &[String]) -> i32 {
    // ysim worker <profile> <tier> <seed> <widx> <nworkers> <cells_total> <deadline_secs>
    let profile = &args[2];
    let thorough = args[3] == "thorough";
    let seed: u64 = args[4].parse().unwrap();
    let widx: u64 = args[5].parse().unwrap();
    let nworkers: u64 = args[6].parse().unwrap();
    let total: u64 = args[7].parse().unwrap();
    let deadline: u64 = args[8].parse().unwrap();
    let t0 = Instant::now();
    let mut rep = WorkerReport::default();
    let mut sigs: HashSet<u64> = HashSet::new();
    let mut finals: HashSet<u64> = HashSet::new();
    let mut idx = widx;
    while idx < total {
        if t0.elapsed().as_secs() >= deadline {
            break;
        }
        let cs = mix(seed, idx);
        let want_sample = rep.sample.is_none() && rep.cells >= 3;
        match cell_generated(profile, thorough, cs, want_sample) {
            CellResult::Run(out) => {
                rep.cells += 1;
                add_stats(&mut rep.stats, &out.stats);
                if out.nontrivial {
                    rep.nontrivial += 1;
                    sigs.insert(out.signature);
                }
                if finals.len() < 100_000 {
                    finals.insert(out.final_hash);
                }
                if let Some(v) = &out.violation {
                    *rep.failure_counts.entry(v.oracle.clone()).or_insert(0) += 1;
                    let same = rep.failures.iter().filter(|f| f.violation.oracle == v.oracle).count();
                    if same < 3 && rep.failures.len() < 12 {
                        rep.failures.push(Failure {
                            index: idx,
                            cell_seed: cs,
                            violation: v.clone(),
                            out: Some(out.clone()),
                        });
                    }
                } else if want_sample && out.nontrivial {
                    rep.sample = Some(json!({
                        "cell_seed": cs,
                        "cfg": out.cfg,
                        "trace": out.trace,
                    }));
                }
            }
            CellResult::Died(m) => {
                rep.cells += 1;
                let oracle = format!("{}.died", profile);
                *rep.failure_counts.entry(oracle.clone()).or_insert(0) += 1;
                if rep.failures.len() < 12 {
                    rep.failures.push(Failure {
                        index: idx,
                        cell_seed: cs,
                        violation: Violation {
                            oracle,
                            msg: m,
                            at_eid: 0,
                        },
                        out: None,
                    });
                }
            }
        }
        idx += nworkers;
    }
    rep.sigs = sigs.into_iter().collect();
    rep.finals = finals.into_iter().collect();
    rep.wall_ms = t0.elapsed().as_millis() as u64;
    println!("{}", serde_json::to_string(&rep).unwrap());
    EXIT_OK
}

pub struct BatchSpec {
    pub profile: String,
    pub thorough: bool,
    pub seed: u64,
    pub cells: u64,
    pub secs: u64,
    pub workers: u64,
    pub verif_dir: String,
}

fn default_cells(profile: &str, thorough: bool) -> u64 {
    let base = match profile {
        "corrupt" => 6_000,
        _ => 120_000,
    };
    if thorough {
        base * 20
    } else {
        base
    }
}

fn batch(args: &[String]) -> i32 {
    let profile = args.get(2).cloned().unwrap_or_default();
    if profile::PROFILES.iter().all(|(p, _)| *p != profile) {
        eprintln!("unknown profile {}", profile);
        return EXIT_HARNESS;
    }
    let tier = arg(args, "--tier")
        .map(|s| s.to_string())
        .or_else(|| std::env::var("VERIF_TIER").ok())
        .unwrap_or_else(|| "quick".into());
    let thorough = tier == "thorough";
    let seed: u64 = arg(args, "--seed")
        .map(|s| s.to_string())
        .or_else(|| std::env::var("VERIF_SEED").ok())
        .and_then(|s| s.parse().ok())
        .unwrap_or(1);
    let spec = BatchSpec {
        profile: profile.clone(),
        thorough,
        seed,
        cells: arg(args, "--cells")
            .and_then(|s| s.parse().ok())
            .unwrap_or_else(|| default_cells(&profile, thorough)),
        secs: arg(args, "--secs")
            .and_then(|s| s.parse().ok())
            .unwrap_or(if thorough { 900 } else { 60 }),
        workers: arg(args, "--workers").and_then(|s| s.parse().ok()).unwrap_or_else(|| {
            std::thread::available_parallelism().map(|n| n.get() as u64).unwrap_or(8)
        }),
        verif_dir: arg(args, "--verif-dir").unwrap_or("/verif").to_string(),
    };
    run_batch(&spec)
}

pub fn run_batch(spec: &BatchSpec) -> i32 {
    let property = profile::property_of(&spec.profile);
    let tier = if spec.thorough { "thorough" } else { "quick" };
    println!(
        "VERIF_SEED={} profile={} property={} tier={} cells<={} secs<={} workers={}",
        spec.seed, spec.profile, property, tier, spec.cells, spec.secs, spec.workers
    );
    let t0 = Instant::now();
    let exe = std::env::current_exe().expect("current_exe");
    let mut children = Vec::new();
    for w in 0..spec.workers {
        let child = std::process::Command::new(&exe)
            .args([
                "worker",
                &spec.profile,
                tier,
                &spec.seed.to_string(),
                &w.to_string(),
                &spec.workers.to_string(),
                &spec.cells.to_string(),
                &spec.secs.to_string(),
            ])
            .stdout(std::process::Stdio::piped())
            .stderr(std::process::Stdio::inherit())
            .spawn();
        match child {
            Ok(c) => children.push(c),
            Err(e) => {
                eprintln!("cannot spawn worker: {}", e);
                return EXIT_HARNESS;
            }
        }
    }
    let mut total = WorkerReport::default();
    let mut sigs: HashSet<u64> = HashSet::new();
    let mut finals: HashSet<u64> = HashSet::new();
    let mut harness_errors = Vec::new();
    for mut c in children {
        let mut s = String::new();
        if let Some(mut o) = c.stdout.take() {
            let _ = o.read_to_string(&mut s);
        }
        let status = c.wait();
        let line = s.lines().last().unwrap_or("");
        match serde_json::from_str::<WorkerReport>(line) {
            Ok(r) => {
                total.cells += r.cells;
                total.nontrivial += r.nontrivial;
                for (k, v) in r.stats {
                    *total.stats.entry(k).or_insert(0) += v;
                }
                for (k, v) in r.failure_counts {
                    *total.failure_counts.entry(k).or_insert(0) += v;
                }
                sigs.extend(r.sigs);
                finals.extend(r.finals);
                total.failures.extend(r.failures);
                if total.sample.is_none() {
                    total.sample = r.sample;
                }
            }
            Err(e) => harness_errors.push(format!("worker report unreadable ({:?}): {}", status, e)),
        }
    }
    if !harness_errors.is_empty() {
        for e in harness_errors {
            eprintln!("HARNESS-ERROR: {}", e);
        }
        return EXIT_HARNESS;
    }
    let run_wall = t0.elapsed().as_secs_f64();
    total.failures.sort_by_key(|f| f.index);

    // ---- triage of failures: minimise, match against known findings -----------------------------
    let kf = known::load(&spec.verif_dir);
    let mut known_hits: BTreeMap<String, (u64, String)> = BTreeMap::new();
    let mut violation_line: Option<String> = None;
    let mut violation_detail: Option<Value> = None;
    let mut harness = false;
    let mut seen_oracles: HashSet<String> = HashSet::new();
    let mut unmatched_unmin: u64 = 0;
    for f in total.failures.iter() {
        // cheap pre-match on the raw failing run: a run that matches a listed finding is counted
        if let Some(out) = &f.out {
            if let Some(k) = known::match_finding(&kf, property, &f.violation, out.cfg.as_ref(), out.trace.as_deref()) {
                let cnt = total.failure_counts.get(&f.violation.oracle).copied().unwrap_or(1);
                known_hits.entry(k.id.clone()).or_insert((cnt, k.what.clone()));
                continue;
            }
        }
        if violation_line.is_some() {
            unmatched_unmin += 1;
            continue;
        }
        if !seen_oracles.insert(f.violation.oracle.clone()) {
            continue;
        }
        // confirm + minimise
        let rf0 = ReplayFile {
            property: property.to_string(),
            profile: spec.profile.clone(),
            tier: tier.to_string(),
            cell_seed: f.cell_seed,
            cfg: f.out.as_ref().and_then(|o| o.cfg.clone()).unwrap_or_else(|| {
                let mut r = crate::rng::Rng::new(f.cell_seed);
                profile::draw_cfg(&spec.profile, spec.thorough, &mut r)
            }),
            trace: f.out.as_ref().and_then(|o| o.trace.clone()).unwrap_or_default(),
            expect: f.violation.clone(),
            note: String::new(),
        };
        let (rf, min_note) = minimise::confirm_and_minimise(rf0, spec.thorough);
        match rf {
            None => {
                eprintln!(
                    "HARNESS-ERROR: failing cell (seed {}) did not reproduce: {} / {}",
                    f.cell_seed, f.violation.oracle, min_note
                );
                harness = true;
            }
            Some(rf) => {
                if let Some(k) = known::match_finding(&kf, property, &rf.expect, Some(&rf.cfg), Some(&rf.trace)) {
                    let cnt = total.failure_counts.get(&f.violation.oracle).copied().unwrap_or(1);
                    known_hits.entry(k.id.clone()).or_insert((cnt, k.what.clone()));
                    continue;
                }
                let dir = format!("{}/replays/{}", spec.verif_dir, property);
                let _ = std::fs::create_dir_all(&dir);
                let path = format!("{}/{}-{}.json", dir, rf.expect.oracle.replace('.', "_"), f.cell_seed);
                let _ = std::fs::write(&path, serde_json::to_string_pretty(&rf).unwrap());
                println!("violation oracle={} at event {}: {}", rf.expect.oracle, rf.expect.at_eid, rf.expect.msg);
                println!("minimised: {} events ({})", rf.trace.len(), min_note);
                violation_line = Some(format!("VIOLATION property={} replay={}", property, path));
                violation_detail = Some(json!({"oracle": rf.expect.oracle, "msg": rf.expect.msg, "replay": path, "events": rf.trace.len()}));
            }
        }
    }

    // ---- evidence ------------------------------------------------------------------------------
    let wall = t0.elapsed().as_secs_f64();
    let level = if spec.profile == "corrupt" { "fault_enumeration" } else { "exploration" };
    let n_viol: u64 = total.failure_counts.values().sum();
    let known_total: u64 = known_hits.values().map(|x| x.0).sum();
    let faults: BTreeMap<String, u64> = total
        .stats
        .iter()
        .filter(|(k, _)| k.starts_with("f_"))
        .map(|(k, v)| (k.clone(), *v))
        .collect();
    let mut samples: Vec<Value> = Vec::new();
    if let Some(s) = &total.sample {
        samples.push(s.clone());
    }
    if samples.is_empty() {
        samples.push(json!({"note": "no non-trivial passing run was sampled in this batch"}));
    }
    let ev = json!({
        "property_id": property,
        "tier": tier,
        "seed": spec.seed,
        "level": level,
        "coverage": {
            "evaluations": if spec.profile == "corrupt" { total.stats.get("oracle_evals").copied().unwrap_or(0) } else { total.cells },
            "distinct_nontrivial": if spec.profile == "corrupt" { total.stats.get("closed_checks").copied().unwrap_or(0) as usize } else { sigs.len() },
            "rule": crate::monitors::coverage_rule(&spec.profile),
            "samples": samples,
            "nontrivial_runs": total.nontrivial,
            "distinct_final_states": finals.len(),
            "runs_per_hour": if run_wall > 0.0 { (total.cells as f64 / run_wall * 3600.0) as u64 } else { 0 },
            "simulated_events": total.stats.get("events").copied().unwrap_or(0),
            "simulated_ms": total.stats.get("sim_ms").copied().unwrap_or(0),
            "faults_fired": faults,
            "counters": total.stats,
            "components": {
                "real": ["yrs (everything under yrs/src, built from the repository's working tree)"],
                "stub": ["transport/links", "relay scheduling", "durable log", "wall clocks (SimClock)", "OS randomness (getrandom interposed)", "heap (fixed-address arena)", "provider timers"],
                "not_run": ["yffi", "ywasm"]
            },
            "failures_by_oracle": total.failure_counts,
            "known_findings_hit": known_hits.iter().map(|(k, v)| json!({"id": k, "runs": v.0})).collect::<Vec<_>>(),
            "violation": violation_detail,
        },
        "assumptions": crate::monitors::assumptions(&spec.profile),
        "wall_s": wall,
        "violations": n_viol.saturating_sub(known_total),
    });
    let evdir = format!("{}/evidence", spec.verif_dir);
    let _ = std::fs::create_dir_all(&evdir);
    let evpath = format!("{}/{}.json", evdir, property);
    if let Err(e) = std::fs::write(&evpath, serde_json::to_string_pretty(&ev).unwrap()) {
        eprintln!("HARNESS-ERROR: cannot write evidence {}: {}", evpath, e);
        return EXIT_HARNESS;
    }
    println!(
        "cells={} nontrivial={} distinct_signatures={} distinct_final_states={} wall={:.1}s ({:.0} cells/s) failing_cells={}",
        total.cells,
        total.nontrivial,
        sigs.len(),
        finals.len(),
        wall,
        total.cells as f64 / run_wall.max(0.001),
        n_viol
    );
    for (id, (cnt, what)) in known_hits.iter() {
        println!("KNOWN-FINDING: property={} {} [{}; {} runs]", property, what, id, cnt);
    }
    if harness {
        return EXIT_HARNESS;
    }
    if let Some(l) = violation_line {
        if unmatched_unmin > 0 {
            println!("({} further failing cells not minimised)", unmatched_unmin);
        }
        println!("{}", l);
        return EXIT_VIOLATION;
    }
    EXIT_OK
}

fn replay(args: &[String]) -> i32 {
    let Some(path) = args.get(2) else {
        eprintln!("usage: ysim replay <file>");
        return EXIT_HARNESS;
    };
    let text = match std::fs::read_to_string(path) {
        Ok(t) => t,
        Err(e) => {
            eprintln!("cannot read {}: {}", path, e);
            return EXIT_HARNESS;
        }
    };
    let rf: ReplayFile = match serde_json::from_str(&text) {
        Ok(r) => r,
        Err(e) => {
            eprintln!("cannot parse {}: {}", path, e);
            return EXIT_HARNESS;
        }
    };
    println!("replaying {} (profile {}, cell seed {}, {} events)", path, rf.profile, rf.cell_seed, rf.trace.len());
    match cell_replay(&rf) {
        CellResult::Run(out) => match out.violation {
            Some(v) => {
                println!("violation oracle={} at event {}: {}", v.oracle, v.at_eid, v.msg);
                if v.oracle == rf.expect.oracle {
                    println!("VIOLATION property={} replay={}", rf.property, path);
                    EXIT_VIOLATION
                } else {
                    println!("different oracle than recorded ({})", rf.expect.oracle);
                    println!("VIOLATION property={} replay={}", rf.property, path);
                    EXIT_VIOLATION
                }
            }
            None => {
                println!("no violation: the property held on this replay");
                EXIT_OK
            }
        },
        CellResult::Died(m) => {
            println!("cell died: {}", m);
            if rf.expect.oracle.ends_with(".died") {
                println!("VIOLATION property={} replay={}", rf.property, path);
                EXIT_VIOLATION
            } else {
                EXIT_HARNESS
            }
        }
    }
}

fn run_one(args: &[String]) -> i32 {
    // ysim run <profile> <tier> <seed> <index>
    let profile = &args[2];
    let thorough = args[3] == "thorough";
    let seed: u64 = args[4].parse().unwrap();
    let index: u64 = args[5].parse().unwrap();
    let cs = mix(seed, index);
    match cell_generated(profile, thorough, cs, true) {
        CellResult::Run(out) => {
            println!("{}", serde_json::to_string_pretty(&out).unwrap());
            if out.violation.is_some() {
                EXIT_VIOLATION
            } else {
                EXIT_OK
            }
        }
        CellResult::Died(m) => {
            println!("died: {}", m);
            EXIT_HARNESS
        }
    }
}

/// runs `count` seeds twice each in separate cells and compares signature, final state hash and stats
fn determinism(args: &[String]) -> i32 {
    let profile = &args[2];
    let thorough = args[3] == "thorough";
    let seed: u64 = args[4].parse().unwrap();
    let count: u64 = args[5].parse().unwrap();
    let offset: u64 = args.get(6).and_then(|s| s.parse().ok()).unwrap_or(0);
    let stride: u64 = args.get(7).and_then(|s| s.parse().ok()).unwrap_or(1);
    let mut bad = 0;
    let mut lines = Vec::new();
    let mut i = offset;
    while i < count {
        let cs = mix(seed, i);
        let a = cell_generated(profile, thorough, cs, true);
        let ja = serde_json::to_string(&a).unwrap();
        lines.push(format!("{} {:016x}", i, crate::dump::hash64(&ja)));
        if args.iter().any(|a| a == "--twice") {
            let b = cell_generated(profile, thorough, cs, true);
            let jb = serde_json::to_string(&b).unwrap();
            if ja != jb {
                bad += 1;
                eprintln!("NONDETERMINISTIC seed index {}", i);
            }
        }
        i += stride;
    }
    for l in lines {
        println!("{}", l);
    }
    if bad > 0 {
        EXIT_HARNESS
    } else {
        EXIT_OK
    }
}

/// ysim triage <profile> <tier> <cell_seed> <outfile>: minimise one failing cell and write its replay file
fn triage(args: &[String]) -> i32 {
    let profile = &args[2];
    let thorough = args[3] == "thorough";
    let cs: u64 = args[4].parse().unwrap();
    let outfile = &args[5];
    match cell_generated(profile, thorough, cs, true) {
        CellResult::Run(out) => {
            let Some(v) = out.violation.clone() else {
                println!("no violation for this cell");
                return EXIT_OK;
            };
            let rf0 = ReplayFile {
                property: profile::property_of(profile).to_string(),
                profile: profile.clone(),
                tier: args[3].clone(),
                cell_seed: cs,
                cfg: out.cfg.clone().unwrap(),
                trace: out.trace.clone().unwrap_or_default(),
                expect: v,
                note: String::new(),
            };
            let (rf, note) = minimise::confirm_and_minimise(rf0, thorough);
            match rf {
                Some(rf) => {
                    std::fs::write(outfile, serde_json::to_string_pretty(&rf).unwrap()).unwrap();
                    println!("{}: {} ({})", rf.expect.oracle, rf.expect.msg, note);
                    EXIT_VIOLATION
                }
                None => {
                    println!("did not reproduce: {}", note);
                    EXIT_HARNESS
                }
            }
        }
        CellResult::Died(m) => {
            println!("died: {}", m);
            EXIT_HARNESS
        }
    }
}
