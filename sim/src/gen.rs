//! Seeded workload generator: draws the next op against what is currently visible on the acting
//! replica (DESIGN.md §2.3). Every inserted sequence element is unique in the run.

use crate::ops::{AttrSpec, Kind, Op, TypeInfo, Val};
use crate::rng::Rng;
use serde::{Deserialize, Serialize};

#[derive(Serialize, Deserialize, Clone, Debug)]
pub struct GenCfg {
    /// relative weights of acting on Text, Array, Map, Xml* types (0 = kind disabled)
    pub w_text: u32,
    pub w_array: u32,
    pub w_map: u32,
    pub w_xml: u32,
    /// percentage of inserted values that are nested shared types
    pub nest_pct: u32,
    pub max_depth: u32,
    /// percentage of ops that delete
    pub del_pct: u32,
    /// percentage of text ops that format / embed
    pub fmt_pct: u32,
    pub embed_pct: u32,
    pub subdoc_pct: u32,
    pub n_keys: u32,
    pub max_ins: u32,
    pub max_del: u32,
    /// map ops: clear / try_update shares
    pub clear_pct: u32,
    /// any-values beyond tagged ints (strings, floats, buffers, nested json)
    pub rich_any: bool,
    /// nested values are sequences only (text, array, xml): no map-held containers
    #[serde(default)]
    pub seq_only: bool,
    /// bias towards appending at the end (same-client blocks squash across transactions)
    #[serde(default)]
    pub append_pct: u32,
    /// deletions may span the whole collection
    #[serde(default)]
    pub wide_del: bool,
    /// bias towards the most recently created nested types
    #[serde(default)]
    pub recent_pct: u32,
}

impl GenCfg {
    pub fn draw(rng: &mut Rng) -> GenCfg {
        // swarm: each run enables a random subset of type kinds
        let mut w = [0u32; 4];
        loop {
            for x in w.iter_mut() {
                *x = if rng.chance(60) { rng.range(1, 4) as u32 } else { 0 };
            }
            if w.iter().any(|x| *x > 0) {
                break;
            }
        }
        GenCfg {
            w_text: w[0],
            w_array: w[1],
            w_map: w[2],
            w_xml: w[3],
            nest_pct: *rng.pick(&[0, 10, 25, 40]),
            max_depth: 3,
            del_pct: *rng.pick(&[10, 25, 40]),
            fmt_pct: *rng.pick(&[0, 0, 15, 30]),
            embed_pct: *rng.pick(&[0, 5, 15]),
            subdoc_pct: *rng.pick(&[0, 0, 0, 5]),
            n_keys: rng.range(2, 4) as u32,
            max_ins: rng.range(1, 4) as u32,
            max_del: rng.range(1, 4) as u32,
            clear_pct: *rng.pick(&[0, 5, 10]),
            rich_any: rng.chance(50),
            seq_only: false,
            append_pct: 0,
            wide_del: false,
            recent_pct: 0,
        }
    }
}

/// allocator of run-unique tags
#[derive(Serialize, Deserialize, Clone, Debug, Default)]
pub struct Tags {
    pub next_char: u32,
    pub next_int: i64,
    pub next_guid: u32,
}

const POOLS: [(u32, u32); 4] = [
    (0x21, 0x7e),       // ASCII printable: 1 byte, 1 utf-16 unit
    (0xa1, 0x7ff),      // 2 bytes
    (0x4e00, 0x9fff),   // 3 bytes (CJK)
    (0x1f300, 0x1faff), // astral: 4 bytes, surrogate pair
];

impl Tags {
    pub fn ch(&mut self) -> char {
        loop {
            let k = self.next_char;
            self.next_char += 1;
            let pool = (k % 4) as usize;
            let idx = k / 4;
            let (lo, hi) = POOLS[pool];
            let cp = if lo + idx <= hi {
                lo + idx
            } else {
                // pool exhausted: fall back to the big CJK pool, disjoint upper part
                0x6000 + (k % 0x3000)
            };
            if cp == '"' as u32 || cp == '\\' as u32 {
                continue;
            }
            if let Some(c) = char::from_u32(cp) {
                return c;
            }
        }
    }
    pub fn chars(&mut self, n: u32) -> String {
        (0..n).map(|_| self.ch()).collect()
    }
    pub fn int(&mut self) -> i64 {
        self.next_int += 1;
        self.next_int
    }
    pub fn guid(&mut self) -> String {
        self.next_guid += 1;
        format!("sub-{}", self.next_guid)
    }
}

fn gen_attrs(rng: &mut Rng) -> AttrSpec {
    let keys = ["b", "i", "c"];
    let n = rng.range(1, 2);
    let mut out: AttrSpec = Vec::new();
    for _ in 0..n {
        let k = *rng.pick(&keys);
        if out.iter().any(|(x, _)| x == k) {
            continue;
        }
        let v = match rng.below(4) {
            0 => Val::Null,
            1 => Val::Bool(true),
            2 => Val::Str("red".into()),
            _ => Val::Int(rng.range(1, 3) as i64),
        };
        out.push((k.to_string(), v));
    }
    out
}

fn gen_any(rng: &mut Rng, tags: &mut Tags, rich: bool) -> Val {
    let t = tags.int();
    if !rich {
        return Val::Int(t);
    }
    match rng.below(8) {
        0 => Val::Str(format!("s{}", t)),
        1 => Val::Num(t as f64 + 0.5),
        2 => Val::Buf(vec![(t & 0xff) as u8, ((t >> 8) & 0xff) as u8, 7]),
        3 => Val::Arr(vec![Val::Int(t), Val::Null, Val::Bool(true)]),
        4 => Val::Obj(vec![
            ("id".into(), Val::Int(t)),
            ("z".into(), Val::Str("é".into())),
        ]),
        _ => Val::Int(t),
    }
}

pub fn gen_val(rng: &mut Rng, tags: &mut Tags, cfg: &GenCfg, depth: u32) -> Val {
    if depth < cfg.max_depth && rng.chance(cfg.nest_pct) {
        let pick = if cfg.seq_only { *rng.pick(&[0u64, 1, 3, 4]) } else { rng.below(5) };
        match pick {
            0 => Val::Text(tags.chars(rng.range(0, 3) as u32)),
            1 => {
                let n = rng.range(0, 2);
                Val::Array((0..n).map(|_| gen_val(rng, tags, cfg, depth + 1)).collect())
            }
            2 => {
                let n = rng.range(0, 2);
                Val::Map(
                    (0..n)
                        .map(|i| (format!("k{}", i), gen_val(rng, tags, cfg, depth + 1)))
                        .collect(),
                )
            }
            3 => Val::XmlText(tags.chars(rng.range(0, 3) as u32)),
            _ => gen_xml(rng, tags, cfg, depth),
        }
    } else if cfg.subdoc_pct > 0 && rng.chance(cfg.subdoc_pct) {
        Val::Doc(tags.guid())
    } else {
        gen_any(rng, tags, cfg.rich_any)
    }
}

pub fn gen_xml(rng: &mut Rng, tags: &mut Tags, cfg: &GenCfg, depth: u32) -> Val {
    if rng.chance(35) {
        Val::XmlText(tags.chars(rng.range(0, 3) as u32))
    } else {
        let tag = format!("e{}", tags.int());
        let n = if depth + 1 < cfg.max_depth && rng.chance(cfg.nest_pct) {
            rng.range(1, 2)
        } else {
            0
        };
        Val::XmlElem(tag, (0..n).map(|_| gen_xml(rng, tags, cfg, depth + 1)).collect())
    }
}

fn kind_weight(cfg: &GenCfg, k: Kind) -> u32 {
    match k {
        Kind::Text => cfg.w_text,
        Kind::Array => cfg.w_array,
        Kind::Map => cfg.w_map,
        Kind::XmlFragment | Kind::XmlElement | Kind::XmlText => cfg.w_xml,
    }
}

/// draws one op against the current view; `None` if nothing is enabled/visible
pub fn gen_op(rng: &mut Rng, view: &[TypeInfo], cfg: &GenCfg, tags: &mut Tags) -> Option<Op> {
    let weights: Vec<u32> = view.iter().map(|t| kind_weight(cfg, t.kind)).collect();
    if weights.iter().all(|w| *w == 0) {
        return None;
    }
    let mut pick = rng.weighted(&weights);
    if cfg.recent_pct > 0 && rng.chance(cfg.recent_pct) {
        // the nested types with the highest clocks are the most recently created ones
        let mut nested: Vec<(u32, usize)> = view
            .iter()
            .enumerate()
            .filter(|(i, _)| weights[*i] > 0)
            .filter_map(|(i, t)| if let crate::ops::Tgt::N(_, c) = &t.tgt { Some((*c, i)) } else { None })
            .collect();
        nested.sort();
        nested.reverse();
        if !nested.is_empty() {
            pick = nested[rng.idx(nested.len().min(2))].1;
        }
    }
    let ti = &view[pick];
    let t = ti.tgt.clone();
    let k = ti.kind;
    let del = ti.len > 0 && rng.chance(cfg.del_pct);
    Some(match k {
        Kind::Text | Kind::XmlText => {
            if del {
                Op::TRemove {
                    t,
                    k,
                    pos: if cfg.wide_del && rng.chance(40) { 0 } else { rng.below(ti.len as u64) as u32 },
                    len: if cfg.wide_del { rng.range(1, ti.len as u64) as u32 } else { rng.range(1, cfg.max_del as u64) as u32 },
                }
            } else if ti.len > 0 && rng.chance(cfg.fmt_pct) {
                Op::TFormat {
                    t,
                    k,
                    pos: rng.below(ti.len as u64) as u32,
                    len: rng.range(1, 4) as u32,
                    attrs: gen_attrs(rng),
                }
            } else if rng.chance(cfg.embed_pct) {
                let v = if ti.depth < cfg.max_depth && rng.chance(cfg.nest_pct) {
                    match rng.below(3) {
                        0 => Val::Text(tags.chars(1)),
                        1 => Val::Map(vec![("k0".into(), Val::Int(tags.int()))]),
                        _ => Val::Array(vec![Val::Int(tags.int())]),
                    }
                } else {
                    // a string embed is indistinguishable from a text chunk in `diff`: never generated
                    let t = tags.int();
                    match rng.below(4) {
                        0 => Val::Num(t as f64 + 0.5),
                        1 => Val::Arr(vec![Val::Int(t), Val::Bool(true)]),
                        2 => Val::Obj(vec![("id".into(), Val::Int(t))]),
                        _ => Val::Int(t),
                    }
                };
                Op::TEmbed {
                    t,
                    k,
                    pos: rng.below(ti.len as u64 + 1) as u32,
                    v,
                    attrs: if rng.chance(cfg.fmt_pct) { Some(gen_attrs(rng)) } else { None },
                }
            } else if k == Kind::XmlText && rng.chance(10) {
                if !ti.keys.is_empty() && rng.chance(40) {
                    Op::XAttrRemove { t, k, key: rng.pick(&ti.keys).clone() }
                } else {
                    Op::XAttrSet {
                        t,
                        k,
                        key: format!("a{}", rng.below(cfg.n_keys as u64)),
                        v: format!("v{}", tags.int()),
                    }
                }
            } else {
                let s = tags.chars(rng.range(1, cfg.max_ins as u64) as u32);
                if rng.chance(15.max(cfg.append_pct)) {
                    Op::TPush { t, k, s }
                } else {
                    // bias towards the ends and towards the same spot (conflict-prone)
                    let pos = match rng.below(6) {
                        0 => 0,
                        1 => ti.len,
                        _ => rng.below(ti.len as u64 + 1) as u32,
                    };
                    Op::TInsert {
                        t,
                        k,
                        pos,
                        s,
                        attrs: if rng.chance(cfg.fmt_pct) { Some(gen_attrs(rng)) } else { None },
                    }
                }
            }
        }
        Kind::Array => {
            if del {
                Op::ARemove {
                    t,
                    pos: if cfg.wide_del && rng.chance(40) { 0 } else { rng.below(ti.len as u64) as u32 },
                    len: if cfg.wide_del { rng.range(1, ti.len as u64) as u32 } else { rng.range(1, cfg.max_del as u64) as u32 },
                }
            } else {
                let n = rng.range(1, cfg.max_ins as u64);
                let vals: Vec<Val> = (0..n).map(|_| gen_val(rng, tags, cfg, ti.depth + 1)).collect();
                match rng.below(8) {
                    0 => Op::APush { t, front: true, v: vals[0].clone() },
                    1 => Op::APush { t, front: false, v: vals[0].clone() },
                    _ => {
                        let pos = match rng.below(6) {
                            0 => 0,
                            1 => ti.len,
                            _ => rng.below(ti.len as u64 + 1) as u32,
                        };
                        Op::AInsert { t, pos, vals }
                    }
                }
            }
        }
        Kind::Map => {
            let key = format!("k{}", rng.below(cfg.n_keys as u64));
            if ti.len > 0 && rng.chance(cfg.clear_pct) {
                Op::MClear { t }
            } else if del {
                Op::MRemove { t, key: rng.pick(&ti.keys).clone() }
            } else if rng.chance(10) {
                Op::MUpdate { t, key, v: gen_any(rng, tags, cfg.rich_any) }
            } else {
                Op::MSet { t, key, v: gen_val(rng, tags, cfg, ti.depth + 1) }
            }
        }
        Kind::XmlFragment | Kind::XmlElement => {
            if del {
                Op::XRemove {
                    t,
                    k,
                    pos: rng.below(ti.len as u64) as u32,
                    len: rng.range(1, cfg.max_del as u64) as u32,
                }
            } else if k == Kind::XmlElement && rng.chance(30) {
                if !ti.keys.is_empty() && rng.chance(35) {
                    Op::XAttrRemove { t, k, key: rng.pick(&ti.keys).clone() }
                } else {
                    Op::XAttrSet {
                        t,
                        k,
                        key: format!("a{}", rng.below(cfg.n_keys as u64)),
                        v: format!("v{}", tags.int()),
                    }
                }
            } else {
                Op::XInsert {
                    t,
                    k,
                    pos: rng.below(ti.len as u64 + 1) as u32,
                    v: gen_xml(rng, tags, cfg, ti.depth),
                }
            }
        }
    })
}
