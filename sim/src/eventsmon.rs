//! (profile module)
use crate::monitors::TxnKind;
use crate::world::*;

pub fn pre_txn(_w: &mut World, _n: usize) {}
pub fn post_txn(_w: &mut World, _n: usize, _kind: &TxnKind, _uid: Option<usize>) -> VResult {
    Ok(())
}
pub fn at_quiescence(_w: &mut World) -> VResult {
    Ok(())
}
pub fn draw(_w: &mut World) -> Option<Ev> {
    None
}
pub fn exec(_w: &mut World, _n: usize, _k: &str, _a: &[u64], _s: &[String]) -> VResult {
    Ok(())
}
