//! C11 — change events are exact edit scripts. Every live type of every replica gets a shallow
//! observer when it first becomes visible; a shadow copy is updated *only* by applying the reported
//! scripts and must equal what the read API shows after every transaction. Deep observers on the
//! roots check paths and completeness.

use crate::dump;
use crate::monitors::TxnKind;
use crate::ops::{self, Kind, Tgt};
use crate::world::*;
use std::collections::{BTreeMap, HashMap, HashSet};
use std::sync::{Arc, Mutex};
use yrs::types::{Change, Delta, EntryChange, PathSegment};
use yrs::{
    Any, Array, ArrayRef, DeepObservable, Map, MapRef, Observable, OffsetKind, Out, ReadTxn, SharedRef, Subscription, TextRef, Transact, Xml,
    XmlElementRef, XmlFragment, XmlFragmentRef, XmlOut, XmlTextRef,
};

type AttrMap = BTreeMap<String, String>;

#[derive(Clone, Debug, PartialEq)]
pub struct SUnit {
    pub ch: Option<char>,
    pub embed: Option<String>,
    pub attrs: AttrMap,
}

#[derive(Clone, Debug, PartialEq)]
pub enum Shadow {
    Text { units: Vec<SUnit>, attrs: AttrMap },
    Seq { items: Vec<String>, attrs: AttrMap },
    Map { entries: AttrMap },
}

#[derive(Clone, Debug)]
pub enum DeltaRec {
    Ins(Vec<SUnit>),
    InsItems(Vec<String>),
    Del(u32),
    Ret(u32, Option<Vec<(String, Option<String>)>>),
}

#[derive(Clone, Debug)]
pub enum KeyRec {
    Inserted(String),
    Updated(String, String),
    Removed(String),
}

#[derive(Clone, Debug)]
pub struct EvRec {
    pub tgt: Tgt,
    pub delta: Vec<DeltaRec>,
    pub keys: Vec<(String, KeyRec)>,
}

#[derive(Clone, Debug)]
pub struct DeepRec {
    pub root: Tgt,
    pub target: Tgt,
    pub path: Vec<Result<String, u32>>,
}

#[derive(Default)]
pub struct EvNode {
    pub shadows: HashMap<Tgt, (Kind, Shadow)>,
    pub subs: Vec<Subscription>,
    pub queue: Arc<Mutex<Vec<EvRec>>>,
    pub deep: Arc<Mutex<Vec<DeepRec>>>,
    pub deep_calls: Arc<Mutex<Vec<Tgt>>>,
}

#[derive(Default)]
pub struct EventsState {
    pub nodes: Vec<EvNode>,
}

fn val_id<T: ReadTxn>(txn: &T, o: &Out) -> String {
    match o {
        Out::Any(a) => dump::any_str(a),
        Out::YText(t) => format!("{:?}", Tgt::from_branch_id(t.hook().id())),
        Out::YArray(t) => format!("{:?}", Tgt::from_branch_id(t.hook().id())),
        Out::YMap(t) => format!("{:?}", Tgt::from_branch_id(t.hook().id())),
        Out::YXmlElement(t) => format!("{:?}", Tgt::from_branch_id(t.hook().id())),
        Out::YXmlFragment(t) => format!("{:?}", Tgt::from_branch_id(t.hook().id())),
        Out::YXmlText(t) => format!("{:?}", Tgt::from_branch_id(t.hook().id())),
        other => {
            let mut s = String::new();
            dump::dump_out(txn, other, &mut s);
            s
        }
    }
}

fn xml_id(x: &XmlOut) -> String {
    match x {
        XmlOut::Element(e) => format!("{:?}", Tgt::from_branch_id(e.hook().id())),
        XmlOut::Fragment(e) => format!("{:?}", Tgt::from_branch_id(e.hook().id())),
        XmlOut::Text(e) => format!("{:?}", Tgt::from_branch_id(e.hook().id())),
    }
}

fn attrs_of(a: Option<&yrs::types::Attrs>) -> AttrMap {
    let mut m = AttrMap::new();
    if let Some(a) = a {
        for (k, v) in a.iter() {
            if !matches!(v, Any::Null) {
                m.insert(k.to_string(), dump::any_str(v));
            }
        }
    }
    m
}

fn attr_updates(a: Option<&yrs::types::Attrs>) -> Option<Vec<(String, Option<String>)>> {
    a.map(|a| {
        let mut v: Vec<(String, Option<String>)> = a
            .iter()
            .map(|(k, v)| (k.to_string(), if matches!(v, Any::Null) { None } else { Some(dump::any_str(v)) }))
            .collect();
        v.sort();
        v
    })
}

fn units_of_out<T: ReadTxn>(txn: &T, o: &Out, attrs: &AttrMap) -> Vec<SUnit> {
    match o {
        Out::Any(Any::String(s)) => s
            .chars()
            .map(|c| SUnit {
                ch: Some(c),
                embed: None,
                attrs: attrs.clone(),
            })
            .collect(),
        other => vec![SUnit {
            ch: None,
            embed: Some(val_id(txn, other)),
            attrs: attrs.clone(),
        }],
    }
}

fn text_delta<T: ReadTxn>(txn: &T, d: &[Delta]) -> Vec<DeltaRec> {
    d.iter()
        .map(|x| match x {
            Delta::Inserted(o, a) => DeltaRec::Ins(units_of_out(txn, o, &attrs_of(a.as_deref()))),
            Delta::Deleted(n) => DeltaRec::Del(*n),
            Delta::Retain(n, a) => DeltaRec::Ret(*n, attr_updates(a.as_deref())),
        })
        .collect()
}

fn seq_delta<T: ReadTxn>(txn: &T, d: &[Change]) -> Vec<DeltaRec> {
    d.iter()
        .map(|x| match x {
            Change::Added(v) => DeltaRec::InsItems(v.iter().map(|o| val_id(txn, o)).collect()),
            Change::Removed(n) => DeltaRec::Del(*n),
            Change::Retain(n) => DeltaRec::Ret(*n, None),
        })
        .collect()
}

fn key_recs<T: ReadTxn>(txn: &T, k: &HashMap<Arc<str>, EntryChange>) -> Vec<(String, KeyRec)> {
    let mut v: Vec<(String, KeyRec)> = k
        .iter()
        .map(|(k, c)| {
            (
                k.to_string(),
                match c {
                    EntryChange::Inserted(n) => KeyRec::Inserted(val_id(txn, n)),
                    EntryChange::Updated(o, n) => KeyRec::Updated(val_id(txn, o), val_id(txn, n)),
                    EntryChange::Removed(o) => KeyRec::Removed(val_id(txn, o)),
                },
            )
        })
        .collect();
    v.sort_by(|a, b| a.0.cmp(&b.0));
    v
}

fn xml_attrs<T: ReadTxn, X: Xml>(txn: &T, x: &X) -> AttrMap {
    x.attributes(txn).map(|(k, v)| (k.to_string(), val_id(txn, &v))).collect()
}

/// what the read API shows for one type, in shadow form
pub fn actual<T: ReadTxn>(txn: &T, tgt: &Tgt, kind: Kind) -> Option<Shadow> {
    let ptr = ops::resolve(txn, tgt, kind)?;
    Some(match kind {
        Kind::Text | Kind::XmlText => {
            let t = TextRef::from(ptr);
            let units = dump::text_units(txn, &t)
                .into_iter()
                .map(|u| SUnit {
                    ch: u.ch,
                    embed: None,
                    attrs: AttrMap::new(),
                })
                .collect::<Vec<_>>();
            // re-read with attribute maps and embed identities
            use yrs::types::text::YChange;
            use yrs::Text;
            let mut out = Vec::new();
            for d in t.diff(txn, YChange::identity) {
                out.extend(units_of_out(txn, &d.insert, &attrs_of(d.attributes.as_deref())));
            }
            let _ = units;
            let attrs = if kind == Kind::XmlText { xml_attrs(txn, &XmlTextRef::from(ptr)) } else { AttrMap::new() };
            Shadow::Text { units: out, attrs }
        }
        Kind::Array => {
            let a = ArrayRef::from(ptr);
            let items: Vec<Out> = a.iter(txn).collect();
            Shadow::Seq {
                items: items.iter().map(|o| val_id(txn, o)).collect(),
                attrs: AttrMap::new(),
            }
        }
        Kind::XmlFragment | Kind::XmlElement => {
            let f = XmlFragmentRef::from(ptr);
            let ch: Vec<XmlOut> = f.children(txn).collect();
            let attrs = if kind == Kind::XmlElement { xml_attrs(txn, &XmlElementRef::from(ptr)) } else { AttrMap::new() };
            Shadow::Seq {
                items: ch.iter().map(xml_id).collect(),
                attrs,
            }
        }
        Kind::Map => {
            let m = MapRef::from(ptr);
            Shadow::Map {
                entries: m.iter(txn).map(|(k, v)| (k.to_string(), val_id(txn, &v))).collect(),
            }
        }
    })
}

fn ulen(u: &SUnit, ok: OffsetKind) -> u32 {
    match u.ch {
        Some(c) => match ok {
            OffsetKind::Bytes => c.len_utf8() as u32,
            OffsetKind::Utf16 => c.len_utf16() as u32,
        },
        None => 1,
    }
}

fn apply_keys(map: &mut AttrMap, keys: &[(String, KeyRec)]) -> Result<(), String> {
    for (k, c) in keys {
        match c {
            KeyRec::Inserted(n) => {
                if let Some(old) = map.get(k) {
                    return Err(format!("key {:?} reported as Inserted({}) but the observer had seen value {}", k, n, old));
                }
                map.insert(k.clone(), n.clone());
            }
            KeyRec::Updated(o, n) => {
                match map.get(k) {
                    Some(old) if old == o => {}
                    other => return Err(format!("key {:?} reported as Updated({} -> {}) but the observer had seen {:?}", k, o, n, other)),
                }
                map.insert(k.clone(), n.clone());
            }
            KeyRec::Removed(o) => {
                match map.get(k) {
                    Some(old) if old == o => {}
                    other => return Err(format!("key {:?} reported as Removed({}) but the observer had seen {:?}", k, o, other)),
                }
                map.remove(k);
            }
        }
    }
    Ok(())
}

/// applies one reported script to a shadow copy
pub fn apply_event(sh: &mut Shadow, e: &EvRec, ok: OffsetKind) -> Result<(), String> {
    match sh {
        Shadow::Text { units, attrs } => {
            let mut pos = 0usize;
            for d in e.delta.iter() {
                match d {
                    DeltaRec::Ins(us) => {
                        for (i, u) in us.iter().enumerate() {
                            units.insert(pos + i, u.clone());
                        }
                        pos += us.len();
                    }
                    DeltaRec::InsItems(_) => return Err("list change in a text delta".into()),
                    DeltaRec::Del(n) => {
                        let mut rem = *n as i64;
                        while rem > 0 {
                            if pos >= units.len() {
                                return Err(format!("delete({}) runs past the end of the text the observer has", n));
                            }
                            rem -= ulen(&units[pos], ok) as i64;
                            units.remove(pos);
                        }
                        if rem < 0 {
                            return Err(format!("delete({}) ends inside a character", n));
                        }
                    }
                    DeltaRec::Ret(n, a) => {
                        let mut rem = *n as i64;
                        while rem > 0 {
                            if pos >= units.len() {
                                return Err(format!("retain({}) runs past the end of the text the observer has", n));
                            }
                            rem -= ulen(&units[pos], ok) as i64;
                            if let Some(ups) = a {
                                for (k, v) in ups {
                                    match v {
                                        Some(v) => {
                                            units[pos].attrs.insert(k.clone(), v.clone());
                                        }
                                        None => {
                                            units[pos].attrs.remove(k);
                                        }
                                    }
                                }
                            }
                            pos += 1;
                        }
                        if rem < 0 {
                            return Err(format!("retain({}) ends inside a character", n));
                        }
                    }
                }
            }
            apply_keys(attrs, &e.keys)
        }
        Shadow::Seq { items, attrs } => {
            let mut pos = 0usize;
            for d in e.delta.iter() {
                match d {
                    DeltaRec::InsItems(v) => {
                        for (i, x) in v.iter().enumerate() {
                            items.insert(pos + i, x.clone());
                        }
                        pos += v.len();
                    }
                    DeltaRec::Ins(_) => return Err("text insert in a list change".into()),
                    DeltaRec::Del(n) => {
                        if pos + *n as usize > items.len() {
                            return Err(format!("removed({}) runs past the end of the list the observer has", n));
                        }
                        items.drain(pos..pos + *n as usize);
                    }
                    DeltaRec::Ret(n, _) => {
                        pos += *n as usize;
                        if pos > items.len() {
                            return Err(format!("retain({}) runs past the end of the list the observer has", n));
                        }
                    }
                }
            }
            apply_keys(attrs, &e.keys)
        }
        Shadow::Map { entries } => apply_keys(entries, &e.keys),
    }
}

fn subscribe_type(doc: &yrs::Doc, tgt: &Tgt, kind: Kind, q: Arc<Mutex<Vec<EvRec>>>) -> Option<Subscription> {
    let txn = doc.transact();
    let ptr = ops::resolve(&txn, tgt, kind)?;
    drop(txn);
    let t = tgt.clone();
    Some(match kind {
        Kind::Text => TextRef::from(ptr).observe(move |txn, e| {
            let rec = EvRec {
                tgt: t.clone(),
                delta: text_delta(txn, e.delta(txn)),
                keys: vec![],
            };
            q.lock().unwrap().push(rec);
        }),
        Kind::XmlText => XmlTextRef::from(ptr).observe(move |txn, e| {
            let rec = EvRec {
                tgt: t.clone(),
                delta: text_delta(txn, e.delta(txn)),
                keys: key_recs(txn, e.keys(txn)),
            };
            q.lock().unwrap().push(rec);
        }),
        Kind::Array => ArrayRef::from(ptr).observe(move |txn, e| {
            let rec = EvRec {
                tgt: t.clone(),
                delta: seq_delta(txn, e.delta(txn)),
                keys: vec![],
            };
            q.lock().unwrap().push(rec);
        }),
        Kind::Map => MapRef::from(ptr).observe(move |txn, e| {
            let rec = EvRec {
                tgt: t.clone(),
                delta: vec![],
                keys: key_recs(txn, e.keys(txn)),
            };
            q.lock().unwrap().push(rec);
        }),
        Kind::XmlFragment => XmlFragmentRef::from(ptr).observe(move |txn, e| {
            let rec = EvRec {
                tgt: t.clone(),
                delta: seq_delta(txn, e.delta(txn)),
                keys: key_recs(txn, e.keys(txn)),
            };
            q.lock().unwrap().push(rec);
        }),
        Kind::XmlElement => XmlElementRef::from(ptr).observe(move |txn, e| {
            let rec = EvRec {
                tgt: t.clone(),
                delta: seq_delta(txn, e.delta(txn)),
                keys: key_recs(txn, e.keys(txn)),
            };
            q.lock().unwrap().push(rec);
        }),
    })
}

fn out_tgt(o: &Out) -> Option<Tgt> {
    match o {
        Out::YText(t) => Some(Tgt::from_branch_id(t.hook().id())),
        Out::YArray(t) => Some(Tgt::from_branch_id(t.hook().id())),
        Out::YMap(t) => Some(Tgt::from_branch_id(t.hook().id())),
        Out::YXmlElement(t) => Some(Tgt::from_branch_id(t.hook().id())),
        Out::YXmlFragment(t) => Some(Tgt::from_branch_id(t.hook().id())),
        Out::YXmlText(t) => Some(Tgt::from_branch_id(t.hook().id())),
        _ => None,
    }
}

fn subscribe_deep(doc: &yrs::Doc, root: &str, kind: Kind, dq: Arc<Mutex<Vec<DeepRec>>>, calls: Arc<Mutex<Vec<Tgt>>>) -> Option<Subscription> {
    let tgt = Tgt::R(root.to_string());
    let txn = doc.transact();
    let ptr = ops::resolve(&txn, &tgt, kind)?;
    drop(txn);
    let r = tgt.clone();
    let f = move |_txn: &yrs::TransactionMut, es: &yrs::types::Events| {
        calls.lock().unwrap().push(r.clone());
        for e in es.iter() {
            if let Some(t) = out_tgt(&e.target()) {
                let path = e
                    .path()
                    .iter()
                    .map(|s| match s {
                        PathSegment::Key(k) => Ok(k.to_string()),
                        PathSegment::Index(i) => Err(*i),
                    })
                    .collect();
                dq.lock().unwrap().push(DeepRec {
                    root: r.clone(),
                    target: t,
                    path,
                });
            }
        }
    };
    Some(match kind {
        Kind::Text => TextRef::from(ptr).observe_deep(f),
        Kind::Array => ArrayRef::from(ptr).observe_deep(f),
        Kind::Map => MapRef::from(ptr).observe_deep(f),
        _ => XmlFragmentRef::from(ptr).observe_deep(f),
    })
}

fn ensure_nodes(w: &mut World) {
    if w.mon.events.nodes.len() == w.nodes.len() {
        return;
    }
    w.mon.events.nodes.clear();
    for n in 0..w.nodes.len() {
        let mut en = EvNode::default();
        let doc = w.nodes[n].doc.clone();
        for (root, kind) in [
            (dump::ROOT_TEXT, Kind::Text),
            (dump::ROOT_ARRAY, Kind::Array),
            (dump::ROOT_MAP, Kind::Map),
            (dump::ROOT_XML, Kind::XmlFragment),
        ] {
            if let Some(s) = subscribe_deep(&doc, root, kind, en.deep.clone(), en.deep_calls.clone()) {
                en.subs.push(s);
            }
        }
        w.mon.events.nodes.push(en);
    }
    for n in 0..w.nodes.len() {
        register_new(w, n);
    }
}

/// observers are registered when a type first becomes visible
fn register_new(w: &mut World, n: usize) {
    let doc = w.nodes[n].doc.clone();
    let types = ops::walk(&doc.transact());
    for ti in types {
        if w.mon.events.nodes[n].shadows.contains_key(&ti.tgt) {
            continue;
        }
        let sh = {
            let txn = doc.transact();
            actual(&txn, &ti.tgt, ti.kind)
        };
        let Some(sh) = sh else { continue };
        let q = w.mon.events.nodes[n].queue.clone();
        if let Some(sub) = subscribe_type(&doc, &ti.tgt, ti.kind, q) {
            w.mon.events.nodes[n].subs.push(sub);
            w.mon.events.nodes[n].shadows.insert(ti.tgt.clone(), (ti.kind, sh));
        }
    }
}

pub fn pre_txn(w: &mut World, _n: usize) {
    ensure_nodes(w);
}

fn resolve_path<T: ReadTxn>(txn: &T, root: &Tgt, path: &[Result<String, u32>], ok: OffsetKind) -> Option<Tgt> {
    let (mut ptr, mut kind) = ops::resolve_any(txn, root)?;
    for seg in path {
        let next: Option<Out> = match (seg, kind) {
            (Ok(k), Kind::Map) => MapRef::from(ptr).get(txn, k),
            (Ok(k), Kind::XmlElement) => XmlElementRef::from(ptr).get_attribute(txn, k),
            (Err(i), Kind::Array) => ArrayRef::from(ptr).get(txn, *i),
            (Err(i), Kind::XmlFragment) | (Err(i), Kind::XmlElement) => XmlFragmentRef::from(ptr).get(txn, *i).map(|x| match x {
                XmlOut::Element(e) => Out::YXmlElement(e),
                XmlOut::Fragment(e) => Out::YXmlFragment(e),
                XmlOut::Text(e) => Out::YXmlText(e),
            }),
            (Err(i), Kind::Text) | (Err(i), Kind::XmlText) => {
                // an embedded shared type: the unit at that offset
                use yrs::types::text::YChange;
                use yrs::Text;
                let t = TextRef::from(ptr);
                let mut off = 0u32;
                let mut found = None;
                for d in t.diff(txn, YChange::identity) {
                    match &d.insert {
                        Out::Any(Any::String(s)) => {
                            off += match ok {
                                OffsetKind::Bytes => s.len() as u32,
                                OffsetKind::Utf16 => s.encode_utf16().count() as u32,
                            }
                        }
                        other => {
                            if off == *i {
                                found = Some(other.clone());
                                break;
                            }
                            off += 1;
                        }
                    }
                }
                found
            }
            _ => None,
        };
        let o = next?;
        let t = out_tgt(&o)?;
        let (p, k) = ops::resolve_any(txn, &t)?;
        ptr = p;
        kind = k;
    }
    use yrs::branch::Branch;
    let b: &Branch = &ptr;
    Some(Tgt::from_branch_id(&b.id()))
}

pub fn post_txn(w: &mut World, n: usize, _kind: &TxnKind, _uid: Option<usize>) -> VResult {
    ensure_nodes(w);
    w.stats.oracle_evals += 1;
    let ok = w.nodes[n].doc.offset_kind();
    let events: Vec<EvRec> = std::mem::take(&mut *w.mon.events.nodes[n].queue.lock().unwrap());
    let deep: Vec<DeepRec> = std::mem::take(&mut *w.mon.events.nodes[n].deep.lock().unwrap());
    let deep_calls: Vec<Tgt> = std::mem::take(&mut *w.mon.events.nodes[n].deep_calls.lock().unwrap());
    // each observer at most once per transaction
    let mut seen: HashSet<Tgt> = HashSet::new();
    for e in events.iter() {
        if !seen.insert(e.tgt.clone()) {
            return Err(viol(
                "events.twice",
                format!("node {}: the observer of {:?} fired more than once in one transaction", n, e.tgt),
            ));
        }
    }
    let mut dseen: HashSet<Tgt> = HashSet::new();
    for r in deep_calls.iter() {
        if !dseen.insert(r.clone()) {
            return Err(viol(
                "events.twice",
                format!("node {}: the deep observer of {:?} fired more than once in one transaction", n, r),
            ));
        }
    }
    // apply the scripts to the shadows
    let mut softs: Vec<Violation> = Vec::new();
    for e in events.iter() {
        let Some((_, sh)) = w.mon.events.nodes[n].shadows.get_mut(&e.tgt) else { continue };
        let before = sh.clone();
        if let Err(msg) = apply_event(sh, e, ok) {
            return Err(viol(
                "events.shadow",
                format!("node {}: the script reported for {:?} does not apply to the content its observer has seen: {}\n  script: {:?} keys {:?}\n  seen  : {:?}", n, e.tgt, msg, e.delta, e.keys, before),
            ));
        }
        if *sh == before {
            w.probe("events.no-effect-script");
            // known finding F6 is identified by the script being completely empty
            let empty = e.delta.is_empty() && e.keys.is_empty();
            // F6b: the script only retains (with attribute updates that change nothing)
            let noop_retain = !empty && e.keys.is_empty() && e.delta.iter().all(|d| matches!(d, DeltaRec::Ret(_, _)));
            let v = viol(
                if empty {
                    "events.no-change-empty-script"
                } else if noop_retain {
                    "events.no-change-noop-retain-script"
                } else {
                    "events.no-change"
                },
                format!(
                    "node {}: {:?} fired an event although its content did not change (script {:?}, keys {:?})",
                    n, e.tgt, e.delta, e.keys
                ),
            );
            if empty || noop_retain {
                // soft: recorded, the run goes on (the world is intact)
                softs.push(v);
                continue;
            }
            return Err(v);
        }
    }
    for mut v in softs {
        if w.soft.len() < 4 {
            v.at_eid = w.cur_eid;
            w.soft.push(v);
        }
    }
    // compare every observed live type with the read API
    let doc = w.nodes[n].doc.clone();
    let txn = doc.transact();
    let mut dead = Vec::new();
    for (tgt, (kind, sh)) in w.mon.events.nodes[n].shadows.iter() {
        match actual(&txn, tgt, *kind) {
            None => dead.push(tgt.clone()),
            Some(a) => {
                if &a != sh {
                    let fired = events.iter().any(|e| &e.tgt == tgt);
                    return Err(viol(
                        if fired { "events.shadow" } else { "events.missing" },
                        format!(
                            "node {}: {:?} — the copy maintained only from its change events differs from what the read API shows ({})\n  from events: {:?}\n  read API   : {:?}\n  script     : {:?}",
                            n,
                            tgt,
                            if fired { "an event fired in this transaction" } else { "no event fired in this transaction" },
                            sh,
                            a,
                            events.iter().find(|e| &e.tgt == tgt).map(|e| (&e.delta, &e.keys))
                        ),
                    ));
                }
            }
        }
    }
    // deep observers: paths lead to the targets; all changed descendants are reported
    for d in deep.iter() {
        if ops::resolve_any(&txn, &d.target).is_none() {
            // A type that is gone at the end of the transaction has nothing to report: its removal
            // is an event of its parent. An event for it cannot have a correct path either - the
            // path is computed in the list as it is after the transaction and leads to whatever
            // took its place.
            return Err(viol(
                "events.deleted-target",
                format!(
                    "node {}: deep observer of {:?} got an event for {:?} (path {:?}), which has been deleted in this very transaction",
                    n, d.root, d.target, d.path
                ),
            ));
        }
        w.stats.closed_checks += 1;
        match resolve_path(&txn, &d.root, &d.path, ok) {
            Some(t) if t == d.target => {}
            other => {
                // known finding F22 is identified by the path being right in UTF-16 units while
                // the document counts in bytes
                let utf16_ok = ok == OffsetKind::Bytes && resolve_path(&txn, &d.root, &d.path, OffsetKind::Utf16).as_ref() == Some(&d.target);
                return Err(viol(
                    if utf16_ok { "events.path-utf16-in-bytes-doc" } else { "events.path" },
                    format!(
                        "node {}: deep observer of {:?} got an event for {:?} with path {:?}, which leads to {:?}",
                        n, d.root, d.target, d.path, other
                    ),
                ))
            }
        }
    }
    for e in events.iter() {
        if ops::resolve_any(&txn, &e.tgt).is_none() {
            continue;
        }
        // which root is it under? found by asking every deep record
        if !deep.iter().any(|d| d.target == e.tgt) {
            return Err(viol(
                "events.deep-missing",
                format!("node {}: {:?} fired a change event but no deep observer of a root received it", n, e.tgt),
            ));
        }
    }
    drop(txn);
    for t in dead {
        w.mon.events.nodes[n].shadows.remove(&t);
    }
    register_new(w, n);
    Ok(())
}

pub fn at_quiescence(w: &mut World) -> VResult {
    crate::monitors::check_closed_as(w, 0, "events")
}

pub fn draw(_w: &mut World) -> Option<Ev> {
    None
}

pub fn exec(_w: &mut World, _n: usize, _k: &str, _a: &[u64], _s: &[String]) -> VResult {
    Ok(())
}
