//! The simulated world: replicas, in-flight messages, the ledger, the executor of trace events and
//! the quiescence phase (DESIGN.md §2.2, §4).

use crate::bits::BitSet;
use crate::dump;
use crate::gen::{self, GenCfg, Tags};
use crate::ops::{self, Op};
use crate::rng::Rng;
use serde::{Deserialize, Serialize};
use std::collections::HashMap;
use std::rc::Rc;
use std::sync::{Arc, Mutex};
use yrs::updates::decoder::Decode;
use yrs::updates::encoder::Encode;
use yrs::{Doc, OffsetKind, Options, ReadTxn, StateVector, Subscription, Transact, Update};

// ------------------------------------------------------------------------------------------------
// configuration (all drawn knobs explicit, part of the replay file)

#[derive(Serialize, Deserialize, Clone, Copy, Debug, PartialEq, Eq)]
pub enum Enc {
    V1,
    V2,
    /// decode v1, re-encode as v2, decode that (a transcoding relay on the link)
    V1toV2,
    V2toV1,
}

#[derive(Serialize, Deserialize, Clone, Copy, Debug, PartialEq, Eq)]
pub enum Order {
    Fifo,
    Random,
    Lifo,
    /// newest message of the same sender first (same-sender reversal)
    SenderReverse,
}

#[derive(Serialize, Deserialize, Clone, Debug)]
pub struct NodeCfg {
    pub client_id: u64,
    pub skip_gc: bool,
    pub utf16: bool,
    pub cleanup_fmt: bool,
}

#[derive(Serialize, Deserialize, Clone, Debug)]
pub struct RunCfg {
    pub profile: String,
    pub nodes: Vec<NodeCfg>,
    /// enc[from][to]
    pub enc: Vec<Vec<Enc>>,
    pub gen: GenCfg,
    pub max_events: u32,
    pub max_txns: u32,
    pub max_ops_per_txn: u32,
    // generator policy weights
    pub w_txn: u32,
    pub w_deliver: u32,
    pub w_dup: u32,
    pub w_drop: u32,
    pub w_hold: u32,
    pub w_sync: u32,
    pub w_gc: u32,
    pub w_partition: u32,
    pub w_relay: u32,
    pub w_crash: u32,
    pub w_special: u32,
    pub order: Order,
    /// percentage of sync answers that use encode_diff (pending left out) instead of the full state
    pub sync_diff_pct: u32,
    pub misroute_pct: u32,
    /// a provider that does not re-broadcast what a cleanup-off replica emits while applying remote data
    pub echo_suppress: bool,
    /// undo profile, walk mode: number of captured steps built before the undo/redo walk (0 = off)
    #[serde(default)]
    pub undo_walk: u32,
    /// sticky profile: node 0 runs an undo manager and undo/redo events are drawn
    #[serde(default)]
    pub sticky_undo: bool,
}

// ------------------------------------------------------------------------------------------------
// trace events

#[derive(Serialize, Deserialize, Clone, Copy, Debug, PartialEq, Eq, Hash, PartialOrd, Ord)]
pub struct MsgId(pub u32, pub u32);

#[derive(Serialize, Deserialize, Clone, Debug)]
pub enum Ev {
    /// one local transaction
    Txn { n: usize, origin: Option<String>, ops: Vec<Op> },
    /// deliver and consume an in-flight message
    Deliver { m: MsgId },
    /// deliver a copy, the message stays in flight
    Dup { m: MsgId },
    Drop { m: MsgId },
    /// withhold until quiescence
    Hold { m: MsgId },
    /// `from` advertises its current state vector to `to`
    SyncReq { from: usize, to: usize },
    /// the holder of request `req` answers it now (diff or full state), optionally also to a third node
    SyncAns { req: MsgId, full: bool, misroute: Option<usize> },
    /// forced garbage collection
    Gc { n: usize },
    /// profile-specific event (see oracle modules)
    Special { n: usize, k: String, a: Vec<u64>, s: Vec<String> },
}

impl Ev {
    pub fn kind(&self) -> &'static str {
        match self {
            Ev::Txn { .. } => "txn",
            Ev::Deliver { .. } => "deliver",
            Ev::Dup { .. } => "dup",
            Ev::Drop { .. } => "drop",
            Ev::Hold { .. } => "hold",
            Ev::SyncReq { .. } => "sync1",
            Ev::SyncAns { .. } => "sync2",
            Ev::Gc { .. } => "gc",
            Ev::Special { .. } => "special",
        }
    }
}

#[derive(Serialize, Deserialize, Clone, Debug)]
pub struct TraceEv {
    pub eid: u32,
    pub ev: Ev,
}

#[derive(Serialize, Deserialize, Clone, Debug, PartialEq, Eq)]
pub struct Violation {
    /// stable oracle id, e.g. "sec.reference"
    pub oracle: String,
    pub msg: String,
    pub at_eid: u32,
}

pub type VResult = Result<(), Violation>;

// ------------------------------------------------------------------------------------------------
// runtime state

pub struct Payload {
    pub v1: Vec<u8>,
    pub v2: Vec<u8>,
}

#[derive(Clone, Copy, Debug, PartialEq, Eq)]
pub enum MsgKind {
    Txn(usize),
    Diff,
    Full,
    Merged,
}

#[derive(Clone)]
pub struct Msg {
    pub id: MsgId,
    pub from: usize,
    pub to: usize,
    pub payload: Rc<Payload>,
    pub lo: BitSet,
    pub hi: BitSet,
    pub kind: MsgKind,
    pub held: bool,
    pub seq: u64,
    /// for sync answers: the answering node's state vector when it encoded the answer
    pub sv_at_encode: Option<Vec<(u64, u32)>>,
}

pub struct SyncRequest {
    pub id: MsgId,
    pub from: usize,
    pub to: usize,
    pub sv: StateVector,
}

#[derive(Default)]
pub struct Outbox {
    pub v1: Vec<Vec<u8>>,
    pub v2: Vec<Vec<u8>>,
}

pub struct Node {
    pub cfg: NodeCfg,
    pub doc: Doc,
    pub outbox: Arc<Mutex<Outbox>>,
    pub subs: Vec<Subscription>,
    /// ledger: lower / upper bound of the updates whose content this replica holds (integrated or stashed)
    pub lo: BitSet,
    pub hi: BitSet,
    pub last_sv: Vec<(u64, u32)>,
    /// the block store had a gap before the current transaction
    pub had_skips: bool,
}

pub struct UidInfo {
    pub node: usize,
    pub primary: bool,
    /// everything the emitter may have held when it emitted (upper bound)
    pub deps: BitSet,
    /// what the emitter can have *seen*: largest causally closed subset of its lower bound
    pub seen: BitSet,
    pub payload: Rc<Payload>,
    pub after_sv: Vec<(u64, u32)>,
    pub eid: u32,
    /// lost in a crash before anybody else could have received it: as if it never happened
    pub void: bool,
    /// what a receiver of this payload holds at least / at most: an update emitted while applying
    /// remote data re-sends the blocks that transaction integrated (DESIGN.md §4.2)
    pub carry_lo: BitSet,
    pub carry_hi: BitSet,
}

pub struct RefState {
    pub dump: String,
    pub sv: Vec<(u64, u32)>,
    pub ds: Vec<(u64, Vec<(u32, u32)>)>,
}

#[derive(Default, Clone, Debug, Serialize, Deserialize)]
pub struct Stats {
    pub events: u64,
    pub txns: u64,
    pub ops: u64,
    pub delivers: u64,
    pub f_dup: u64,
    pub f_drop: u64,
    pub f_hold: u64,
    pub f_reorder: u64,
    pub f_stale_sv: u64,
    pub f_misroute: u64,
    pub f_partition: u64,
    pub f_transcode: u64,
    pub f_crash: u64,
    pub f_gc: u64,
    pub f_relay: u64,
    pub f_clock: u64,
    pub syncs: u64,
    pub uids: u64,
    pub secondary: u64,
    pub concurrent_pairs: u64,
    pub oracle_evals: u64,
    pub pending_seen: u64,
    pub closed_checks: u64,
    pub quiesce_rounds: u64,
    pub sim_ms: u64,
    pub special: u64,
    /// named reach probes of the harness: how often a clause of an oracle was non-vacuously evaluated
    #[serde(default)]
    pub probes: std::collections::BTreeMap<String, u64>,
}

pub struct World {
    pub cfg: RunCfg,
    /// generator stream (never used by the executor)
    pub rng: Rng,
    /// quiescence stream: a function of the cell seed only
    pub qrng: Rng,
    pub nodes: Vec<Node>,
    pub inflight: Vec<Msg>,
    pub reqs: Vec<SyncRequest>,
    pub uids: Vec<UidInfo>,
    pub refs: HashMap<Vec<u64>, Rc<RefState>>,
    pub tags: Tags,
    pub trace: Vec<TraceEv>,
    pub cur_eid: u32,
    pub cur_k: u32,
    pub msg_seq: u64,
    pub stats: Stats,
    pub now: u64,
    /// generator-only state: partition group per node (same group => connected)
    pub group: Vec<u32>,
    pub quiescing: bool,
    pub mon: crate::monitors::Monitors,
    /// ops of the transaction being generated (kept so that a panic still yields a full trace)
    pub cur_ops: Vec<Op>,
    pub gen_steps: u32,
    pub verbose: bool,
    /// uids that have left their emitter (a message carrying them was delivered, or was built from a replica's state)
    pub exposed: BitSet,
    /// set by `deliver` when the echo of the delivered message re-sends exactly its content
    pub echo_ctx: Option<(BitSet, BitSet)>,
    pub soft: Vec<Violation>,
    /// origin of the local transaction being executed
    pub cur_origin: Option<String>,
    pub walk_need_clock: bool,
    pub cur_txn: Option<(usize, Option<String>)>,
}

pub fn is_soft(oracle: &str) -> bool {
    oracle.ends_with("-empty-script") || oracle.ends_with("-map-redo-refused") || oracle.ends_with("not-notified-deleted-boundary") || oracle.ends_with("not-notified-on-delete") || oracle.ends_with("offset-bytes-nonascii") || oracle.ends_with("-noop-retain-script") || oracle.ends_with("path-utf16-in-bytes-doc") || oracle.ends_with("-tombstone-dup") || oracle.ends_with("rebuild-stashed") || oracle.ends_with("selfdiff-stashed") || oracle.ends_with("restore-gappy")
}

pub fn viol(oracle: &str, msg: String) -> Violation {
    Violation {
        oracle: oracle.to_string(),
        msg,
        at_eid: 0,
    }
}

pub fn make_doc(c: &NodeCfg) -> Doc {
    let o = Options {
        client_id: yrs::block::ClientID::new(c.client_id),
        guid: Arc::from("doc"),
        collection_id: None,
        offset_kind: if c.utf16 { OffsetKind::Utf16 } else { OffsetKind::Bytes },
        skip_gc: c.skip_gc,
        auto_load: false,
        should_load: true,
        cleanup_formatting: c.cleanup_fmt,
    };
    let doc = Doc::with_options(o);
    declare_roots(&doc);
    doc
}

pub fn declare_roots(doc: &Doc) {
    doc.get_or_insert_text(dump::ROOT_TEXT);
    doc.get_or_insert_array(dump::ROOT_ARRAY);
    doc.get_or_insert_map(dump::ROOT_MAP);
    doc.get_or_insert_xml_fragment(dump::ROOT_XML);
}

/// a passive replica: no GC (unless asked), clean-up off, fixed client id that never edits
pub fn passive_doc(skip_gc: bool, utf16: bool) -> Doc {
    make_doc(&NodeCfg {
        client_id: 9_000_000,
        skip_gc,
        utf16,
        cleanup_fmt: false,
    })
}

pub fn subscribe(doc: &Doc) -> (Arc<Mutex<Outbox>>, Vec<Subscription>) {
    let outbox = Arc::new(Mutex::new(Outbox::default()));
    let o1 = outbox.clone();
    let s1 = doc
        .observe_update_v1(move |_, e| o1.lock().unwrap().v1.push(e.update.clone()))
        .expect("observe_update_v1");
    let o2 = outbox.clone();
    let s2 = doc
        .observe_update_v2(move |_, e| o2.lock().unwrap().v2.push(e.update.clone()))
        .expect("observe_update_v2");
    (outbox, vec![s1, s2])
}

pub fn decode(p: &Payload, enc: Enc) -> Result<Update, String> {
    match enc {
        Enc::V1 => Update::decode_v1(&p.v1).map_err(|e| format!("decode_v1: {}", e)),
        Enc::V2 => Update::decode_v2(&p.v2).map_err(|e| format!("decode_v2: {}", e)),
        Enc::V1toV2 => {
            let u = Update::decode_v1(&p.v1).map_err(|e| format!("decode_v1: {}", e))?;
            let b = u.encode_v2();
            Update::decode_v2(&b).map_err(|e| format!("decode_v2(transcoded): {}", e))
        }
        Enc::V2toV1 => {
            let u = Update::decode_v2(&p.v2).map_err(|e| format!("decode_v2: {}", e))?;
            let b = u.encode_v1();
            Update::decode_v1(&b).map_err(|e| format!("decode_v1(transcoded): {}", e))
        }
    }
}

/// applies a payload to a document in its own transaction
pub fn apply_payload(doc: &Doc, p: &Payload, enc: Enc) -> Result<(), String> {
    let u = decode(p, enc)?;
    let mut txn = doc.transact_mut();
    txn.apply_update(u).map_err(|e| format!("apply_update: {}", e))?;
    Ok(())
}

pub fn doc_dump(doc: &Doc) -> String {
    let txn = doc.transact();
    dump::dump_doc(&txn)
}

pub fn doc_sv(doc: &Doc) -> Vec<(u64, u32)> {
    let txn = doc.transact();
    sv_vec(&txn.state_vector())
}

/// the deleted clock ranges of a replica, per client, sorted and merged
pub fn doc_ds(doc: &Doc) -> Vec<(u64, Vec<(u32, u32)>)> {
    let ds = doc.transact().snapshot().delete_set;
    let mut out: Vec<(u64, Vec<(u32, u32)>)> = Vec::new();
    for (client, ranges) in ds.iter() {
        let mut v: Vec<(u32, u32)> = ranges.iter().map(|r| (r.start, r.end)).filter(|(a, b)| b > a).collect();
        v.sort();
        let mut m: Vec<(u32, u32)> = Vec::new();
        for (a, b) in v {
            match m.last_mut() {
                Some(l) if a <= l.1 => l.1 = l.1.max(b),
                _ => m.push((a, b)),
            }
        }
        if !m.is_empty() {
            out.push((client.get(), m));
        }
    }
    out.sort();
    out
}

pub fn sv_vec(sv: &StateVector) -> Vec<(u64, u32)> {
    let mut v: Vec<(u64, u32)> = sv
        .iter()
        .filter(|(_, c)| **c > 0)
        .map(|(k, c)| (k.get(), *c))
        .collect();
    v.sort();
    v
}

pub fn sv_join(a: &mut Vec<(u64, u32)>, b: &[(u64, u32)]) {
    for (c, k) in b {
        match a.iter_mut().find(|x| x.0 == *c) {
            Some(x) => {
                if x.1 < *k {
                    x.1 = *k
                }
            }
            None => a.push((*c, *k)),
        }
    }
    a.sort();
}

pub fn sv_ge(a: &[(u64, u32)], b: &[(u64, u32)]) -> bool {
    b.iter()
        .all(|(c, k)| a.iter().find(|x| x.0 == *c).map(|x| x.1).unwrap_or(0) >= *k)
}

pub fn hex(b: &[u8]) -> String {
    let mut s = String::new();
    for x in b.iter().take(160) {
        s.push_str(&format!("{:02x}", x));
    }
    if b.len() > 160 {
        s.push_str("..");
    }
    s
}

pub fn has_missing(doc: &Doc) -> bool {
    doc.transact().has_missing_updates()
}

impl World {
    pub fn probe(&mut self, name: &str) {
        *self.stats.probes.entry(name.to_string()).or_insert(0) += 1;
    }

    pub fn new(cfg: RunCfg, gen_seed: u64, q_seed: u64) -> World {
        let mut nodes = Vec::new();
        for c in cfg.nodes.iter() {
            let doc = make_doc(c);
            let (outbox, subs) = subscribe(&doc);
            nodes.push(Node {
                cfg: c.clone(),
                doc,
                outbox,
                subs,
                lo: BitSet::new(),
                hi: BitSet::new(),
                last_sv: vec![],
                had_skips: false,
            });
        }
        let n = nodes.len();
        let mon = crate::monitors::Monitors::new(&cfg, &nodes);
        World {
            cfg,
            rng: Rng::new(gen_seed),
            qrng: Rng::new(q_seed),
            nodes,
            inflight: Vec::new(),
            reqs: Vec::new(),
            uids: Vec::new(),
            refs: HashMap::new(),
            tags: Tags::default(),
            trace: Vec::new(),
            cur_eid: 0,
            cur_k: 0,
            msg_seq: 0,
            stats: Stats::default(),
            now: 1_000_000,
            group: vec![0; n],
            quiescing: false,
            mon,
            cur_ops: Vec::new(),
            gen_steps: 0,
            verbose: crate::arena::verbose(),
            exposed: BitSet::new(),
            echo_ctx: None,
            soft: Vec::new(),
            cur_origin: None,
            walk_need_clock: true,
            cur_txn: None,
        }
    }

    pub fn armed(&self, what: &str) -> bool {
        self.mon.armed.iter().any(|a| a == what)
    }

    fn next_msg_id(&mut self) -> MsgId {
        let id = MsgId(self.cur_eid, self.cur_k);
        self.cur_k += 1;
        id
    }

    // ---- ledger ----------------------------------------------------------------------------

    pub fn closed(&self, s: &BitSet) -> bool {
        s.iter().all(|u| self.uids[u].deps.is_subset(s))
    }

    /// largest causally closed subset
    pub fn interior(&self, s: &BitSet) -> BitSet {
        let mut cur = s.clone();
        loop {
            let mut removed = false;
            for u in cur.to_vec() {
                if !self.uids[u].deps.is_subset(&cur) {
                    cur.remove(u);
                    removed = true;
                }
            }
            if !removed {
                return cur;
            }
        }
    }

    /// all updates that still exist somewhere (not lost in a crash before leaving their emitter)
    pub fn universe(&self) -> BitSet {
        let mut b = BitSet::new();
        for (i, u) in self.uids.iter().enumerate() {
            if !u.void {
                b.insert(i);
            }
        }
        b
    }

    pub fn exact(&self, n: usize) -> bool {
        self.nodes[n].lo == self.nodes[n].hi
    }

    /// reference replica for a causally closed set: original payloads in emission order
    pub fn reference(&mut self, s: &BitSet) -> Result<Rc<RefState>, Violation> {
        let key = s.key();
        if let Some(r) = self.refs.get(&key) {
            return Ok(r.clone());
        }
        let doc = passive_doc(true, true);
        for u in s.iter() {
            if let Err(e) = apply_payload(&doc, &self.uids[u].payload, Enc::V1) {
                return Err(viol(
                    "ref.apply",
                    format!("reference replica cannot apply update u{} in emission order: {}", u, e),
                ));
            }
        }
        if has_missing(&doc) {
            return Err(viol(
                "ref.pending",
                format!(
                    "reference replica (emission order, closed set {:?}) reports missing updates",
                    s.to_vec()
                ),
            ));
        }
        let r = Rc::new(RefState {
            dump: doc_dump(&doc),
            sv: doc_sv(&doc),
            ds: doc_ds(&doc),
        });
        self.refs.insert(key, r.clone());
        Ok(r)
    }

    /// called after every transaction on node `n`: collects what the update observers received
    /// and registers it in the ledger. Returns the new uid if the transaction emitted.
    pub fn collect_emission(&mut self, n: usize, primary: bool) -> Result<Option<usize>, Violation> {
        let (v1s, v2s) = {
            let mut ob = self.nodes[n].outbox.lock().unwrap();
            (std::mem::take(&mut ob.v1), std::mem::take(&mut ob.v2))
        };
        if v1s.len() > 1 || v2s.len() > 1 {
            return Err(viol(
                "log.count",
                format!(
                    "one transaction on node {} emitted {} v1 and {} v2 update events",
                    n,
                    v1s.len(),
                    v2s.len()
                ),
            ));
        }
        if v1s.len() != v2s.len() {
            return Err(viol(
                "log.count",
                format!(
                    "transaction on node {} emitted {} v1 but {} v2 update events",
                    n,
                    v1s.len(),
                    v2s.len()
                ),
            ));
        }
        if v1s.is_empty() {
            return Ok(None);
        }
        let payload = Rc::new(Payload {
            v1: v1s.into_iter().next().unwrap(),
            v2: v2s.into_iter().next().unwrap(),
        });
        let uid = self.uids.len();
        if self.verbose {
            crate::arena::outside(|| eprintln!("   .. node {} emits uid {}: {:?}", n, uid, decode(&payload, Enc::V1)));
        }
        let deps = self.nodes[n].hi.clone();
        let seen = self.interior(&self.nodes[n].lo);
        // concurrency statistic: uids neither seen by this one
        let conc = (0..uid).filter(|u| !seen.contains(*u)).count() as u64;
        self.stats.concurrent_pairs += conc;
        let after_sv = doc_sv(&self.nodes[n].doc);
        let mut carry_lo = BitSet::new();
        carry_lo.insert(uid);
        let mut carry_hi = carry_lo.clone();
        // a replica with a gap in its block store re-sends older blocks in its update events
        // (they are written from the gap on): upper bound = everything it may hold
        let gappy = yrs::verif::has_skips(self.nodes[n].doc.transact().store()) || self.nodes[n].had_skips;
        if primary && gappy {
            carry_hi.union_with(&self.nodes[n].hi);
        }
        if !primary {
            match self.echo_ctx.take() {
                Some((lo, hi)) => {
                    carry_lo.union_with(&lo);
                    carry_hi.union_with(&hi);
                }
                None => {
                    carry_hi.union_with(&self.nodes[n].hi);
                }
            }
        }
        self.echo_ctx = None;
        self.uids.push(UidInfo {
            node: n,
            primary,
            deps,
            seen,
            payload: payload.clone(),
            after_sv,
            eid: self.cur_eid,
            void: false,
            carry_lo: carry_lo.clone(),
            carry_hi: carry_hi.clone(),
        });
        self.nodes[n].lo.insert(uid);
        self.nodes[n].hi.insert(uid);
        self.stats.uids += 1;
        if !primary {
            self.stats.secondary += 1;
        }
        // broadcast (mesh); a provider may legally not echo what a clean-up-off replica emits
        // while applying remote data (it only repeats what every replica derives by itself)
        let suppress = !primary && self.cfg.echo_suppress && !self.nodes[n].cfg.cleanup_fmt;
        if !suppress || self.quiescing {
            for to in 0..self.nodes.len() {
                if to == n {
                    continue;
                }
                let id = self.next_msg_id();
                self.msg_seq += 1;
                self.inflight.push(Msg {
                    id,
                    from: n,
                    to,
                    payload: payload.clone(),
                    lo: carry_lo.clone(),
                    hi: carry_hi.clone(),
                    kind: MsgKind::Txn(uid),
                    held: false,
                    seq: self.msg_seq,
                    sv_at_encode: None,
                });
            }
        }
        Ok(Some(uid))
    }

    // ---- executor --------------------------------------------------------------------------

    pub fn exec(&mut self, tev: &TraceEv) -> VResult {
        self.cur_eid = tev.eid;
        self.cur_k = 0;
        self.stats.events += 1;
        self.now += 1;
        let r = self.exec_inner(&tev.ev);
        self.soften(r, tev.eid)
    }

    /// A violation whose oracle id marks it as one of the narrowly identified known-finding
    /// shapes (and which leaves the simulated world intact) is recorded and the run goes on, so
    /// that the rest of the run is still checked; it is reported at the end if nothing else fails.
    pub fn soften(&mut self, r: VResult, eid: u32) -> VResult {
        match r {
            Ok(()) => Ok(()),
            Err(mut v) => {
                v.at_eid = eid;
                if is_soft(&v.oracle) {
                    if self.soft.len() < 4 {
                        self.soft.push(v);
                    }
                    Ok(())
                } else {
                    Err(v)
                }
            }
        }
    }

    fn exec_inner(&mut self, ev: &Ev) -> VResult {
        match ev {
            Ev::Txn { n, origin, ops } => {
                if *n >= self.nodes.len() {
                    return Ok(());
                }
                self.run_txn(*n, origin.clone(), Some(ops.clone()), 0).map(|_| ())
            }
            Ev::Deliver { m } => {
                let Some(i) = self.inflight.iter().position(|x| x.id == *m) else { return Ok(()) };
                let msg = self.inflight.remove(i);
                self.deliver(&msg)
            }
            Ev::Dup { m } => {
                let Some(i) = self.inflight.iter().position(|x| x.id == *m) else { return Ok(()) };
                let msg = self.inflight[i].clone();
                self.stats.f_dup += 1;
                self.deliver(&msg)
            }
            Ev::Drop { m } => {
                if let Some(i) = self.inflight.iter().position(|x| x.id == *m) {
                    self.inflight.remove(i);
                    self.stats.f_drop += 1;
                }
                Ok(())
            }
            Ev::Hold { m } => {
                if let Some(x) = self.inflight.iter_mut().find(|x| x.id == *m) {
                    x.held = true;
                    self.stats.f_hold += 1;
                }
                Ok(())
            }
            Ev::SyncReq { from, to } => {
                if *from >= self.nodes.len() || *to >= self.nodes.len() || from == to {
                    return Ok(());
                }
                let sv = self.nodes[*from].doc.transact().state_vector();
                let id = self.next_msg_id();
                self.reqs.push(SyncRequest {
                    id,
                    from: *from,
                    to: *to,
                    sv,
                });
                Ok(())
            }
            Ev::SyncAns { req, full, misroute } => self.sync_answer(*req, *full, *misroute),
            Ev::Gc { n } => {
                if *n >= self.nodes.len() {
                    return Ok(());
                }
                self.force_gc(*n)
            }
            Ev::Special { n, k, a, s } => crate::monitors::exec_special(self, *n, k, a, s),
        }
    }

    /// runs one local transaction; `ops == None` means: generate `count` ops on the fly.
    /// Returns the executed ops.
    pub fn run_txn(
        &mut self,
        n: usize,
        origin: Option<String>,
        ops: Option<Vec<Op>>,
        count: u32,
    ) -> Result<Vec<Op>, Violation> {
        self.cur_origin = origin.clone();
        let pre = crate::monitors::pre_txn(self, n);
        let hs = yrs::verif::has_skips(self.nodes[n].doc.transact().store());
        self.nodes[n].had_skips = hs;
        let mut done = Vec::new();
        {
            let doc = self.nodes[n].doc.clone();
            let mut txn = match &origin {
                Some(o) => doc.transact_mut_with(o.as_str()),
                None => doc.transact_mut(),
            };
            match ops {
                Some(list) => {
                    for op in list.iter() {
                        crate::seqmon::around_op(&self.cfg.profile, &mut self.mon.sp.seq, &mut txn, op);
                        done.push(op.clone());
                    }
                }
                None => {
                    for _ in 0..count {
                        let view = ops::walk(&txn);
                        let gcfg = self.cfg.gen.clone();
                        if let Some(op) = gen::gen_op(&mut self.rng, &view, &gcfg, &mut self.tags) {
                            self.cur_ops.push(op.clone());
                            crate::seqmon::around_op(&self.cfg.profile, &mut self.mon.sp.seq, &mut txn, &op);
                            done.push(op);
                        }
                    }
                }
            }
        }
        self.stats.txns += 1;
        self.stats.ops += done.len() as u64;
        let uid = self.collect_emission(n, true)?;
        crate::monitors::post_txn(self, n, crate::monitors::TxnKind::Local, uid, pre, &done)?;
        Ok(done)
    }

    pub fn force_gc(&mut self, n: usize) -> VResult {
        let pre = crate::monitors::pre_txn(self, n);
        {
            let mut txn = self.nodes[n].doc.transact_mut();
            txn.gc(None);
        }
        self.stats.f_gc += 1;
        let uid = self.collect_emission(n, false)?;
        crate::monitors::post_txn(self, n, crate::monitors::TxnKind::Gc, uid, pre, &[])
    }

    pub fn deliver(&mut self, msg: &Msg) -> VResult {
        let n = msg.to;
        let enc = self.cfg.enc[msg.from.min(self.cfg.enc.len() - 1)][n];
        if enc != Enc::V1 && enc != Enc::V2 {
            self.stats.f_transcode += 1;
        }
        self.stats.delivers += 1;
        if self.verbose {
            crate::arena::outside(|| {
            let u = decode(&msg.payload, Enc::V1);
            eprintln!(
                "   .. deliver {:?} {:?} from {} to {} lo={:?}: {:?}\n{}",
                msg.id,
                msg.kind,
                msg.from,
                n,
                msg.lo.to_vec(),
                u,
                yrs::verif::blocks_dump(self.nodes[n].doc.transact().store())
            );
            });
        }
        let pre = crate::monitors::pre_txn(self, n);
        let pre_skips = yrs::verif::has_skips(self.nodes[n].doc.transact().store());
        if let Err(e) = apply_payload(&self.nodes[n].doc, &msg.payload, enc) {
            return Err(viol(
                "net.apply",
                format!(
                    "node {} cannot apply a payload produced by the library at node {} ({:?}, {:?}): {}\n  v1={}\n  v2={}",
                    n, msg.from, msg.kind, enc, e, hex(&msg.payload.v1), hex(&msg.payload.v2)
                ),
            ));
        }
        let (lo_before, hi_before) = (self.nodes[n].lo.clone(), self.nodes[n].hi.clone());
        self.nodes[n].lo.union_with(&msg.lo);
        self.nodes[n].hi.union_with(&msg.hi);
        self.exposed.union_with(&msg.hi);
        // The update this replica emits now re-sends the blocks it has just integrated. If it had
        // no stash before and has none now, and its block store has no gap, those are exactly the
        // blocks of the delivered message.
        let clean_after = {
            let t = self.nodes[n].doc.transact();
            !t.has_missing_updates() && !yrs::verif::has_skips(t.store())
        };
        // Deletions are not attributable to one update (two updates may delete the same element, and
        // the echo only carries what was newly deleted): no lower-bound credit then.
        let insert_only = Update::decode_v1(&msg.payload.v1)
            .map(|u| u.delete_set().is_empty())
            .unwrap_or(false);
        self.echo_ctx = if !pre.missing && !pre_skips && clean_after && insert_only {
            // ... that were new to this replica: it certainly re-sends what it certainly did not
            // have, and possibly what it possibly did not have
            let mut lo = BitSet::new();
            for v in msg.lo.iter() {
                if !hi_before.contains(v) {
                    lo.insert(v);
                }
            }
            let mut hi = BitSet::new();
            for v in msg.hi.iter() {
                if !lo_before.contains(v) {
                    hi.insert(v);
                }
            }
            Some((lo, hi))
        } else {
            None
        };
        let uid = self.collect_emission(n, false)?;
        crate::monitors::post_txn(
            self,
            n,
            crate::monitors::TxnKind::Remote(msg.clone(), enc),
            uid,
            pre,
            &[],
        )
    }

    fn sync_answer(&mut self, req: MsgId, full: bool, misroute: Option<usize>) -> VResult {
        let Some(ri) = self.reqs.iter().position(|r| r.id == req) else { return Ok(()) };
        let (from, to, sv) = {
            let r = &self.reqs[ri];
            (r.from, r.to, r.sv.clone())
        };
        // `to` holds the request of `from` and answers it now
        let a = to;
        let b = from;
        let cur_sv = self.nodes[b].doc.transact().state_vector();
        if sv_vec(&cur_sv) != sv_vec(&sv) {
            self.stats.f_stale_sv += 1;
        }
        let (v1, v2, sva) = {
            let txn = self.nodes[a].doc.transact();
            let sva = sv_vec(&txn.state_vector());
            if full {
                (txn.encode_state_as_update_v1(&sv), txn.encode_state_as_update_v2(&sv), sva)
            } else {
                (txn.encode_diff_v1(&sv), txn.encode_diff_v2(&sv), sva)
            }
        };
        let payload = Rc::new(Payload { v1, v2 });
        if self.cfg.profile == "relay" {
            let (plo, phi) = if full {
                (self.nodes[a].lo.clone(), self.nodes[a].hi.clone())
            } else {
                (self.interior(&self.nodes[a].lo), self.nodes[a].hi.clone())
            };
            self.mon.pool.push((payload.clone(), plo, phi));
        }
        let (lo, hi) = if full {
            (self.nodes[a].lo.clone(), self.nodes[a].hi.clone())
        } else {
            (self.interior(&self.nodes[a].lo), self.nodes[a].hi.clone())
        };
        self.stats.syncs += 1;
        self.exposed.union_with(&hi);
        let id = self.next_msg_id();
        self.msg_seq += 1;
        self.inflight.push(Msg {
            id,
            from: a,
            to: b,
            payload: payload.clone(),
            lo,
            hi: hi.clone(),
            kind: if full { MsgKind::Full } else { MsgKind::Diff },
            held: false,
            seq: self.msg_seq,
            sv_at_encode: Some(sva.clone()),
        });
        if let Some(c) = misroute {
            if c < self.nodes.len() && c != a && c != b {
                // a diff computed for b's state vector also reaches c: nothing can be claimed
                // about what c holds afterwards, except an upper bound
                let id = self.next_msg_id();
                self.msg_seq += 1;
                self.stats.f_misroute += 1;
                self.inflight.push(Msg {
                    id,
                    from: a,
                    to: c,
                    payload,
                    lo: BitSet::new(),
                    hi,
                    kind: MsgKind::Diff,
                    held: false,
                    seq: self.msg_seq,
                    sv_at_encode: None,
                });
            }
        }
        crate::monitors::on_sync_answer(self, a, b, &sv, full)
    }

    // ---- quiescence ------------------------------------------------------------------------

    /// faults off: deliver everything in flight, then anti-entropy rounds until nothing changes
    pub fn quiesce(&mut self) -> VResult {
        self.quiescing = true;
        self.cur_eid = u32::MAX;
        self.cur_k = 0;
        // 1. everything still in flight (including withheld messages) arrives, in seeded order
        let mut guard = 0;
        while !self.inflight.is_empty() {
            let i = self.qrng.idx(self.inflight.len());
            let msg = self.inflight.remove(i);
            { let r = self.deliver(&msg); self.soften(r, u32::MAX)?; }
            guard += 1;
            if guard > 100_000 {
                return Err(viol("quiesce.livelock", "message storm during quiescence".into()));
            }
        }
        // 2. anti-entropy: every ordered pair exchanges state vector / full state
        let n = self.nodes.len();
        let mut rounds = 0u32;
        loop {
            rounds += 1;
            let before_uids = self.uids.len();
            let before_cov: Vec<usize> = self.nodes.iter().map(|x| x.lo.len()).collect();
            let mut pairs: Vec<(usize, usize)> = Vec::new();
            for a in 0..n {
                for b in 0..n {
                    if a != b {
                        pairs.push((a, b));
                    }
                }
            }
            self.qrng.shuffle(&mut pairs);
            for (a, b) in pairs {
                let sv = self.nodes[b].doc.transact().state_vector();
                let (v1, v2) = {
                    let txn = self.nodes[a].doc.transact();
                    (txn.encode_state_as_update_v1(&sv), txn.encode_state_as_update_v2(&sv))
                };
                let id = self.next_msg_id();
                self.msg_seq += 1;
                let msg = Msg {
                    id,
                    from: a,
                    to: b,
                    payload: Rc::new(Payload { v1, v2 }),
                    lo: self.nodes[a].lo.clone(),
                    hi: self.nodes[a].hi.clone(),
                    kind: MsgKind::Full,
                    held: false,
                    seq: self.msg_seq,
                    sv_at_encode: None,
                };
                { let r = self.deliver(&msg); self.soften(r, u32::MAX)?; }
                // forward whatever was emitted on the way
                let mut guard = 0;
                while !self.inflight.is_empty() {
                    let m = self.inflight.remove(0);
                    { let r = self.deliver(&m); self.soften(r, u32::MAX)?; }
                    guard += 1;
                    if guard > 100_000 {
                        return Err(viol(
                            "quiesce.livelock",
                            "message storm during quiescence".into(),
                        ));
                    }
                }
            }
            let after_cov: Vec<usize> = self.nodes.iter().map(|x| x.lo.len()).collect();
            if self.uids.len() == before_uids && after_cov == before_cov {
                break;
            }
            if rounds > 3 + self.mon.format_ops + 2 {
                return Err(viol(
                    "quiesce.bound",
                    format!(
                        "replicas still changing after {} anti-entropy rounds with faults off",
                        rounds
                    ),
                ));
            }
        }
        self.stats.quiesce_rounds += rounds as u64;
        crate::monitors::at_quiescence(self)
    }
}
