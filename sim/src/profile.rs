//! Per-property profiles: workload mix + fault mix (swarm-drawn per run) and the generator policy
//! that draws the next event from the PRNG given a summary of the current world.

use crate::gen::GenCfg;
use crate::rng::Rng;
use crate::world::*;

pub const PROFILES: &[(&str, &str)] = &[
    ("sec", "C01"),
    ("gap", "C02"),
    ("seq", "C04"),
    ("lww", "C05"),
    ("svsync", "C06"),
    ("log", "C07"),
    ("relay", "C08"),
    ("corrupt", "C10"),
    ("events", "C11"),
    ("undo", "C12"),
    ("snap", "C13"),
    ("sticky", "C14"),
    ("gc", "C15"),
    ("reads", "C17"),
    ("ysync", "C18"),
    ("weak", "C20"),
];

pub fn property_of(profile: &str) -> &'static str {
    PROFILES
        .iter()
        .find(|(p, _)| *p == profile)
        .map(|(_, c)| *c)
        .unwrap_or("C00")
}

pub fn profile_of(property: &str) -> Option<&'static str> {
    PROFILES.iter().find(|(_, c)| *c == property).map(|(p, _)| *p)
}

fn draw_enc(rng: &mut Rng, n: usize, v2_ok: bool) -> Vec<Vec<Enc>> {
    let mode = rng.below(4);
    (0..n)
        .map(|_| {
            (0..n)
                .map(|_| {
                    if !v2_ok {
                        return Enc::V1;
                    }
                    match mode {
                        0 => Enc::V1,
                        1 => Enc::V2,
                        _ => match rng.below(10) {
                            0..=3 => Enc::V1,
                            4..=7 => Enc::V2,
                            8 => Enc::V1toV2,
                            _ => Enc::V2toV1,
                        },
                    }
                })
                .collect()
        })
        .collect()
}

fn pick_faults(rng: &mut Rng, cands: &mut [(&mut u32, u32, u32)]) {
    // ~10 % of runs fault-free; otherwise 1..3 fault kinds enabled at a drawn rate
    for c in cands.iter_mut() {
        *c.0 = 0;
    }
    if rng.chance(10) {
        return;
    }
    let k = rng.range(1, 3.min(cands.len() as u64)) as usize;
    for _ in 0..k {
        let i = rng.idx(cands.len());
        let (lo, hi) = (cands[i].1, cands[i].2);
        *cands[i].0 = rng.range(lo as u64, hi as u64) as u32;
    }
}

pub fn draw_cfg(profile: &str, thorough: bool, rng: &mut Rng) -> RunCfg {
    let n = if thorough { rng.range(2, 5) } else { rng.range(2, 3) } as usize;
    let mut ids: Vec<u64> = Vec::new();
    while ids.len() < n {
        let id = rng.range(1, 60);
        if !ids.contains(&id) {
            ids.push(id);
        }
    }
    let mut nodes: Vec<NodeCfg> = ids
        .iter()
        .map(|id| NodeCfg {
            client_id: *id,
            skip_gc: rng.chance(50),
            utf16: rng.chance(50),
            cleanup_fmt: rng.chance(50),
        })
        .collect();
    let mut gen = GenCfg::draw(rng);
    let mut cfg = RunCfg {
        profile: profile.to_string(),
        nodes: vec![],
        enc: draw_enc(rng, n, true),
        gen: gen.clone(),
        max_events: if thorough { rng.range(30, 120) } else { rng.range(12, 40) } as u32,
        max_txns: if thorough { rng.range(8, 60) } else { rng.range(4, 24) } as u32,
        max_ops_per_txn: rng.range(1, 4) as u32,
        w_txn: 30,
        w_deliver: 40,
        w_dup: 0,
        w_drop: 0,
        w_hold: 0,
        w_sync: 0,
        w_gc: 0,
        w_partition: 0,
        w_relay: 0,
        w_crash: 0,
        w_special: 0,
        order: *rng.pick(&[Order::Fifo, Order::Random, Order::Random, Order::Lifo, Order::SenderReverse]),
        sync_diff_pct: *rng.pick(&[0, 50, 100]),
        misroute_pct: 0,
        echo_suppress: rng.chance(30),
        undo_walk: 0,
        sticky_undo: false,
    };
    match profile {
        "gap" => {
            // long same-client chains, cross-client origins; disorder-heavy delivery
            gen.w_xml = 0;
            gen.fmt_pct = 0;
            gen.embed_pct = 0;
            gen.subdoc_pct = 0;
            gen.nest_pct = *rng.pick(&[0, 0, 10]);
            if gen.w_text + gen.w_array + gen.w_map == 0 {
                gen.w_text = 2;
            }
            cfg.order = *rng.pick(&[Order::Lifo, Order::SenderReverse, Order::Random]);
            cfg.max_ops_per_txn = rng.range(1, 2) as u32;
            cfg.w_txn = 35;
            cfg.w_deliver = 30;
            cfg.sync_diff_pct = 0;
            pick_faults(
                rng,
                &mut [
                    (&mut cfg.w_hold, 3, 12),
                    (&mut cfg.w_dup, 2, 10),
                    (&mut cfg.w_sync, 3, 12),
                    (&mut cfg.w_partition, 1, 4),
                ],
            );
            for nd in nodes.iter_mut() {
                nd.cleanup_fmt = false;
            }
        }
        "seq" => {
            gen.w_map = 0;
            gen.embed_pct = 0;
            gen.subdoc_pct = 0;
            gen.rich_any = false;
            gen.seq_only = true;
            if gen.w_text + gen.w_array + gen.w_xml == 0 {
                gen.w_text = 2;
                gen.w_array = 2;
            }
            pick_faults(
                rng,
                &mut [
                    (&mut cfg.w_dup, 2, 12),
                    (&mut cfg.w_drop, 2, 10),
                    (&mut cfg.w_hold, 2, 8),
                    (&mut cfg.w_sync, 3, 12),
                    (&mut cfg.w_gc, 2, 8),
                    (&mut cfg.w_partition, 1, 5),
                ],
            );
        }
        "sticky" | "weak" => {
            gen.w_map = 0;
            gen.embed_pct = 0;
            gen.subdoc_pct = 0;
            gen.rich_any = false;
            gen.seq_only = true;
            if profile == "weak" {
                gen.w_xml = 0;
                gen.fmt_pct = 0;
            }
            if gen.w_text + gen.w_array + gen.w_xml == 0 {
                gen.w_text = 2;
                gen.w_array = 2;
            }
            cfg.w_special = rng.range(8, 18) as u32;
            pick_faults(
                rng,
                &mut [
                    (&mut cfg.w_dup, 2, 12),
                    (&mut cfg.w_drop, 2, 10),
                    (&mut cfg.w_hold, 2, 8),
                    (&mut cfg.w_sync, 3, 12),
                    (&mut cfg.w_gc, 2, 8),
                    (&mut cfg.w_partition, 1, 5),
                ],
            );
            if profile == "sticky" {
                cfg.sticky_undo = rng.chance(40);
            }
        }
        "lww" => {
            // a few hot keys on 1-3 maps (root, nested, XML attributes); partitions make concurrency
            gen.w_text = 0;
            gen.w_array = *rng.pick(&[0, 0, 1]);
            gen.w_map = 4;
            gen.w_xml = *rng.pick(&[0, 1, 2]);
            gen.embed_pct = 0;
            gen.fmt_pct = 0;
            gen.subdoc_pct = 0;
            gen.rich_any = false;
            gen.n_keys = rng.range(2, 4) as u32;
            gen.del_pct = *rng.pick(&[15, 30, 45]);
            gen.clear_pct = *rng.pick(&[0, 5, 15]);
            pick_faults(
                rng,
                &mut [
                    (&mut cfg.w_dup, 2, 12),
                    (&mut cfg.w_drop, 2, 10),
                    (&mut cfg.w_hold, 2, 8),
                    (&mut cfg.w_sync, 3, 12),
                    (&mut cfg.w_gc, 2, 8),
                    (&mut cfg.w_partition, 2, 8),
                ],
            );
        }
        "events" => {
            for nd in nodes.iter_mut() {
                nd.skip_gc = false;
            }
            gen.subdoc_pct = 0;
            cfg.max_ops_per_txn = rng.range(1, 5) as u32;
            pick_faults(
                rng,
                &mut [
                    (&mut cfg.w_dup, 2, 12),
                    (&mut cfg.w_drop, 2, 8),
                    (&mut cfg.w_hold, 2, 8),
                    (&mut cfg.w_sync, 3, 12),
                    (&mut cfg.w_gc, 2, 8),
                    (&mut cfg.w_partition, 1, 5),
                ],
            );
        }
        "undo" => {
            if rng.chance(50) {
                // walk mode: build a history of captured steps, then walk it down and up
                cfg.undo_walk = rng.range(3, 8) as u32;
                gen.append_pct = 40;
                gen.wide_del = true;
                gen.recent_pct = 50;
                gen.nest_pct = *rng.pick(&[10, 25, 40]);
            }
            gen.subdoc_pct = 0;
            gen.embed_pct = 0;
            gen.rich_any = false;
            cfg.w_special = rng.range(15, 30) as u32;
            cfg.w_txn = 40;
            pick_faults(
                rng,
                &mut [
                    (&mut cfg.w_dup, 2, 10),
                    (&mut cfg.w_drop, 2, 8),
                    (&mut cfg.w_hold, 2, 8),
                    (&mut cfg.w_sync, 3, 10),
                    (&mut cfg.w_gc, 3, 10),
                    (&mut cfg.w_partition, 1, 5),
                ],
            );
        }
        "snap" => {
            // node 0 is the archivist (no GC); at least one other node collects garbage
            nodes[0].skip_gc = true;
            if nodes.len() > 1 {
                nodes[1].skip_gc = false;
            }
            gen.subdoc_pct = 0;
            gen.del_pct = *rng.pick(&[25, 40]);
            cfg.w_special = rng.range(6, 14) as u32;
            pick_faults(
                rng,
                &mut [
                    (&mut cfg.w_dup, 2, 12),
                    (&mut cfg.w_drop, 2, 8),
                    (&mut cfg.w_hold, 2, 8),
                    (&mut cfg.w_sync, 3, 12),
                    (&mut cfg.w_partition, 1, 5),
                ],
            );
        }
        "svsync" => {
            cfg.w_sync = rng.range(8, 20) as u32;
            cfg.w_special = rng.range(3, 10) as u32;
            cfg.sync_diff_pct = *rng.pick(&[0, 50, 50, 100]);
            let mut misroute = 0u32;
            pick_faults(
                rng,
                &mut [
                    (&mut cfg.w_dup, 4, 12),
                    (&mut cfg.w_drop, 2, 10),
                    (&mut cfg.w_hold, 2, 8),
                    (&mut cfg.w_gc, 2, 8),
                    (&mut cfg.w_partition, 1, 5),
                    (&mut misroute, 10, 40),
                ],
            );
            cfg.misroute_pct = misroute;
        }
        "log" => {
            cfg.w_special = *rng.pick(&[0, 2, 4, 6]);
            pick_faults(
                rng,
                &mut [
                    (&mut cfg.w_dup, 3, 12),
                    (&mut cfg.w_drop, 2, 8),
                    (&mut cfg.w_hold, 2, 8),
                    (&mut cfg.w_sync, 3, 12),
                    (&mut cfg.w_gc, 3, 10),
                ],
            );
            cfg.echo_suppress = false;
        }
        "gc" => {
            // mixed GC settings in the cluster, deletion-heavy workload
            for (i, nd) in nodes.iter_mut().enumerate() {
                nd.skip_gc = (i + (ids[0] as usize)) % 2 == 0;
            }
            gen.del_pct = *rng.pick(&[25, 40, 55]);
            cfg.w_gc = rng.range(3, 10) as u32;
            cfg.w_special = rng.range(2, 6) as u32;
            pick_faults(
                rng,
                &mut [
                    (&mut cfg.w_dup, 3, 12),
                    (&mut cfg.w_drop, 2, 8),
                    (&mut cfg.w_hold, 2, 8),
                    (&mut cfg.w_sync, 3, 12),
                    (&mut cfg.w_partition, 1, 5),
                ],
            );
            // "content an undo manager may still need to restore is not collected": an undo
            // manager on node 0 in some of the runs
            cfg.sticky_undo = rng.chance(40);
            if cfg.sticky_undo {
                cfg.w_special += 6;
            }
        }
        "relay" => {
            cfg.w_special = rng.range(8, 18) as u32;
            pick_faults(
                rng,
                &mut [
                    (&mut cfg.w_dup, 3, 12),
                    (&mut cfg.w_hold, 2, 8),
                    (&mut cfg.w_sync, 3, 12),
                    (&mut cfg.w_gc, 2, 8),
                    (&mut cfg.w_partition, 1, 5),
                ],
            );
        }
        _ => {
            let mut misroute = 0u32;
            pick_faults(
                rng,
                &mut [
                    (&mut cfg.w_dup, 2, 12),
                    (&mut cfg.w_drop, 2, 10),
                    (&mut cfg.w_hold, 2, 8),
                    (&mut cfg.w_sync, 3, 12),
                    (&mut cfg.w_gc, 2, 8),
                    (&mut cfg.w_partition, 1, 5),
                    (&mut misroute, 10, 40),
                ],
            );
            cfg.misroute_pct = misroute;
            if misroute > 0 && cfg.w_sync == 0 {
                cfg.w_sync = 6;
            }
        }
    }
    cfg.gen = gen;
    cfg.nodes = nodes;
    cfg
}

fn connected(w: &World, m: &Msg) -> bool {
    w.group[m.from] == w.group[m.to]
}

impl World {
    /// draws and executes the next event; returns Ok(false) when the run is over
    pub fn step(&mut self) -> Result<bool, Violation> {
        self.gen_steps += 1;
        if self.trace.len() as u32 >= self.cfg.max_events || self.gen_steps > self.cfg.max_events * 3 {
            return Ok(false);
        }
        let eid = self.trace.len() as u32;
        let elig: Vec<usize> = (0..self.inflight.len())
            .filter(|i| !self.inflight[*i].held && connected(self, &self.inflight[*i]))
            .collect();
        let can_txn = (self.stats.txns as u32) < self.cfg.max_txns;
        let has_msg = !elig.is_empty();
        let gc_nodes: Vec<usize> = (0..self.nodes.len()).filter(|i| !self.nodes[*i].cfg.skip_gc).collect();
        let weights = [
            if can_txn { self.cfg.w_txn } else { 0 },
            if has_msg { self.cfg.w_deliver } else { 0 },
            if has_msg { self.cfg.w_dup } else { 0 },
            if has_msg { self.cfg.w_drop } else { 0 },
            if has_msg { self.cfg.w_hold } else { 0 },
            self.cfg.w_sync,
            if gc_nodes.is_empty() { 0 } else { self.cfg.w_gc },
            self.cfg.w_partition,
            crate::monitors::special_weight(self),
        ];
        if weights.iter().all(|x| *x == 0) {
            return Ok(false);
        }
        if self.cfg.profile == "undo" && self.cfg.undo_walk > 0 {
            // walk mode: phase 1 builds captured steps on the editor (a clock jump starts a new
            // step), phase 2 walks the history down and up with undo/redo
            let sp = |k: &str, a: Vec<u64>| Ev::Special { n: 0, k: k.into(), a, s: vec![] };
            let ev = if (self.stats.txns as u32) < self.cfg.undo_walk {
                if self.walk_need_clock {
                    self.walk_need_clock = false;
                    sp("clock", vec![1000 + self.rng.below(1000)])
                } else {
                    self.walk_need_clock = self.rng.chance(75);
                    let count = self.rng.range(1, self.cfg.max_ops_per_txn as u64) as u32;
                    return self.gen_txn(eid, 0, Some("user".into()), count);
                }
            } else {
                match self.rng.below(20) {
                    0..=10 => sp("undo", vec![]),
                    11..=17 => sp("redo", vec![]),
                    18 => sp("gc", vec![]),
                    _ => {
                        let count = self.rng.range(1, 2) as u32;
                        return self.gen_txn(eid, 0, Some("user".into()), count);
                    }
                }
            };
            let ev = if let Ev::Special { k, .. } = &ev { if k == "gc" { Ev::Gc { n: 0 } } else { ev } } else { ev };
            let tev = TraceEv { eid, ev };
            self.trace.push(tev.clone());
            self.exec(&tev)?;
            return Ok(true);
        }
        let k = self.rng.weighted(&weights);
        let ev = match k {
            0 => {
                let mut n = self.rng.idx(self.nodes.len());
                if self.cfg.profile == "undo" && self.rng.chance(50) {
                    n = 0; // the editor is the busiest replica
                }
                let count = self.rng.range(1, self.cfg.max_ops_per_txn as u64) as u32;
                let origin = crate::monitors::draw_origin(self, n);
                return self.gen_txn(eid, n, origin, count);
            }
            1 => {
                let i = self.choose_delivery(&elig);
                Ev::Deliver { m: self.inflight[i].id }
            }
            2 => Ev::Dup { m: self.inflight[*self.rng.pick(&elig)].id },
            3 => Ev::Drop { m: self.inflight[*self.rng.pick(&elig)].id },
            4 => Ev::Hold { m: self.inflight[*self.rng.pick(&elig)].id },
            5 => {
                // either a new advertisement or an answer to a (possibly old) one
                if !self.reqs.is_empty() && self.rng.chance(60) {
                    let lo = self.reqs.len().saturating_sub(4);
                    let ri = self.rng.range(lo as u64, self.reqs.len() as u64 - 1) as usize;
                    let full = !self.rng.chance(self.cfg.sync_diff_pct);
                    let misroute = if !full && self.nodes.len() > 2 && self.rng.chance(self.cfg.misroute_pct) {
                        Some(self.rng.idx(self.nodes.len()))
                    } else {
                        None
                    };
                    Ev::SyncAns { req: self.reqs[ri].id, full, misroute }
                } else {
                    let from = self.rng.idx(self.nodes.len());
                    let mut to = self.rng.idx(self.nodes.len() - 1);
                    if to >= from {
                        to += 1;
                    }
                    Ev::SyncReq { from, to }
                }
            }
            6 => Ev::Gc { n: *self.rng.pick(&gc_nodes) },
            7 => {
                // generator-only state: toggles a partition; in-flight messages across it wait
                if self.group.iter().any(|g| *g != 0) {
                    for g in self.group.iter_mut() {
                        *g = 0;
                    }
                } else {
                    for i in 0..self.group.len() {
                        self.group[i] = self.rng.below(2) as u32;
                    }
                    self.stats.f_partition += 1;
                }
                return Ok(true);
            }
            _ => match crate::monitors::draw_special(self) {
                Some(ev) => ev,
                None => return Ok(true),
            },
        };
        let tev = TraceEv { eid, ev };
        self.trace.push(tev.clone());
        self.exec(&tev)?;
        Ok(true)
    }

    /// a generated local transaction: ops are drawn and executed one by one
    fn gen_txn(&mut self, eid: u32, n: usize, origin: Option<String>, count: u32) -> Result<bool, Violation> {
        self.cur_eid = eid;
        self.cur_k = 0;
        self.stats.events += 1;
        self.now += 1;
        self.cur_ops.clear();
        self.cur_txn = Some((n, origin.clone()));
        let r = self.run_txn(n, origin.clone(), None, count);
        self.cur_txn = None;
        let ops = std::mem::take(&mut self.cur_ops);
        self.trace.push(TraceEv {
            eid,
            ev: Ev::Txn { n, origin, ops },
        });
        self.soften(r.map(|_| ()), eid).map(|_| true)
    }

    fn choose_delivery(&mut self, elig: &[usize]) -> usize {
        let pick = match self.cfg.order {
            Order::Fifo => *elig.iter().min_by_key(|i| self.inflight[**i].seq).unwrap(),
            Order::Lifo => *elig.iter().max_by_key(|i| self.inflight[**i].seq).unwrap(),
            Order::Random => *self.rng.pick(elig),
            Order::SenderReverse => {
                let j = *self.rng.pick(elig);
                let (f, t) = (self.inflight[j].from, self.inflight[j].to);
                *elig
                    .iter()
                    .filter(|i| self.inflight[**i].from == f && self.inflight[**i].to == t)
                    .max_by_key(|i| self.inflight[**i].seq)
                    .unwrap()
            }
        };
        // reordering fired iff an older message of the same link is still in flight
        let m = &self.inflight[pick];
        if self
            .inflight
            .iter()
            .any(|x| x.from == m.from && x.to == m.to && x.seq < m.seq)
        {
            self.stats.f_reorder += 1;
        }
        pick
    }
}
