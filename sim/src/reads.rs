//! C17 — all read paths of a shared type tell the same story. Evaluated on every live type of a
//! replica through the public API only.

use crate::dump;
use crate::ops::{self, Kind};
use yrs::branch::BranchPtr;
use yrs::types::text::YChange;
use yrs::types::ToJson;
use yrs::{
    Any, Array, ArrayRef, GetString, Map, MapRef, OffsetKind, Out, ReadTxn, Text, TextRef, Xml,
    XmlElementRef, XmlFragment, XmlFragmentRef, XmlOut, XmlTextRef,
};

fn out_str<T: ReadTxn>(txn: &T, o: &Out) -> String {
    let mut s = String::new();
    dump::dump_out(txn, o, &mut s);
    s
}

fn xml_id(x: &XmlOut) -> String {
    use yrs::SharedRef;
    match x {
        XmlOut::Element(e) => format!("{:?}", e.hook().id()),
        XmlOut::Fragment(e) => format!("{:?}", e.hook().id()),
        XmlOut::Text(e) => format!("{:?}", e.hook().id()),
    }
}

fn xml_string<T: ReadTxn>(txn: &T, x: &XmlOut) -> String {
    match x {
        XmlOut::Element(e) => e.get_string(txn),
        XmlOut::Fragment(e) => e.get_string(txn),
        XmlOut::Text(e) => e.get_string(txn),
    }
}

/// json value of an element as `to_json` of the container would render it
fn out_json<T: ReadTxn>(txn: &T, o: &Out) -> Any {
    match o {
        Out::Any(a) => a.clone(),
        Out::YText(t) => Any::String(t.get_string(txn).into()),
        Out::YArray(a) => a.to_json(txn),
        Out::YMap(m) => m.to_json(txn),
        Out::YXmlElement(e) => Any::String(e.get_string(txn).into()),
        Out::YXmlFragment(e) => Any::String(e.get_string(txn).into()),
        Out::YXmlText(e) => Any::String(e.get_string(txn).into()),
        Out::YDoc(d) => d.to_json(txn),
        _ => Any::Undefined,
    }
}

fn check_array<T: ReadTxn>(txn: &T, a: &ArrayRef, name: &str) -> Result<(), String> {
    let items: Vec<Out> = a.iter(txn).collect();
    let len = a.len(txn) as usize;
    if len != items.len() {
        return Err(format!("array {}: len()={} but iteration yields {} elements", name, len, items.len()));
    }
    match a.to_json(txn) {
        Any::Array(js) => {
            if js.len() != len {
                return Err(format!("array {}: len()={} but to_json has {} elements", name, len, js.len()));
            }
            for (i, (j, o)) in js.iter().zip(items.iter()).enumerate() {
                if !matches!(o, Out::YDoc(_) | Out::YWeakLink(_) | Out::UndefinedRef(_)) {
                    let e = out_json(txn, o);
                    if dump::any_str(j) != dump::any_str(&e) {
                        return Err(format!(
                            "array {}: to_json[{}]={} but iterated element renders as {}",
                            name,
                            i,
                            dump::any_str(j),
                            dump::any_str(&e)
                        ));
                    }
                }
            }
        }
        other => return Err(format!("array {}: to_json is not an array: {}", name, dump::any_str(&other))),
    }
    for (i, it) in items.iter().enumerate() {
        match a.get(txn, i as u32) {
            Some(g) => {
                if out_str(txn, &g) != out_str(txn, it) {
                    return Err(format!(
                        "array {}: get({})={} but the {}-th iterated element is {}",
                        name,
                        i,
                        out_str(txn, &g),
                        i,
                        out_str(txn, it)
                    ));
                }
            }
            None => return Err(format!("array {}: get({}) is None although len()={}", name, i, len)),
        }
    }
    if let Some(g) = a.get(txn, len as u32) {
        return Err(format!("array {}: get(len={}) returned {}", name, len, out_str(txn, &g)));
    }
    Ok(())
}

fn check_text<T: ReadTxn>(txn: &T, t: &TextRef, name: &str, okind: OffsetKind, xml: bool) -> Result<(), String> {
    let diffs = t.diff(txn, YChange::identity);
    let mut concat = String::new();
    let mut embeds = 0u32;
    let mut formatted = false;
    for d in diffs.iter() {
        if d.attributes.as_ref().map(|a| !a.is_empty()).unwrap_or(false) {
            formatted = true;
        }
        match &d.insert {
            Out::Any(Any::String(s)) => concat.push_str(s),
            _ => embeds += 1,
        }
    }
    let units: u32 = match okind {
        OffsetKind::Bytes => concat.len() as u32,
        OffsetKind::Utf16 => concat.encode_utf16().count() as u32,
    };
    let len = t.len(txn);
    if len != units + embeds {
        return Err(format!(
            "text {}: len()={} but content has {} units + {} embeds (diff chunks: {:?})",
            name, len, units, embeds, concat
        ));
    }
    if !xml {
        let s = t.get_string(txn);
        if s != concat {
            return Err(format!("text {}: get_string()={:?} but concatenated diff chunks give {:?}", name, s, concat));
        }
    } else if !formatted && embeds == 0 {
        let xt = XmlTextRef::from(BranchPtr::from(t.as_ref() as &yrs::branch::Branch));
        let s = xt.get_string(txn);
        if s != concat {
            return Err(format!("xml text {}: get_string()={:?} but diff chunks give {:?}", name, s, concat));
        }
    }
    Ok(())
}

fn check_map<T: ReadTxn>(txn: &T, m: &MapRef, name: &str) -> Result<(), String> {
    let mut entries: Vec<(String, String)> = m.iter(txn).map(|(k, v)| (k.to_string(), out_str(txn, &v))).collect();
    entries.sort();
    let len = m.len(txn) as usize;
    if len != entries.len() {
        return Err(format!("map {}: len()={} but iter yields {} entries", name, len, entries.len()));
    }
    let mut keys: Vec<String> = m.keys(txn).map(|k| k.to_string()).collect();
    keys.sort();
    let ekeys: Vec<String> = entries.iter().map(|e| e.0.clone()).collect();
    if keys != ekeys {
        return Err(format!("map {}: keys()={:?} but iter has keys {:?}", name, keys, ekeys));
    }
    let mut vals: Vec<String> = m.values(txn).map(|v| v.iter().map(|o| out_str(txn, o)).collect::<Vec<_>>().join("+")).collect();
    vals.sort();
    let mut evals: Vec<String> = entries.iter().map(|e| e.1.clone()).collect();
    evals.sort();
    if vals != evals {
        return Err(format!("map {}: values()={:?} but iter has values {:?}", name, vals, evals));
    }
    for (k, v) in entries.iter() {
        if !m.contains_key(txn, k) {
            return Err(format!("map {}: iter yields key {:?} but contains_key is false", name, k));
        }
        match m.get(txn, k) {
            Some(g) => {
                if &out_str(txn, &g) != v {
                    return Err(format!("map {}: get({:?})={} but iter has {}", name, k, out_str(txn, &g), v));
                }
            }
            None => return Err(format!("map {}: iter yields key {:?} but get returns None", name, k)),
        }
    }
    for k in ["k0", "k1", "k2", "k3", "zz"] {
        let present = ekeys.iter().any(|x| x == k);
        if !present {
            if m.contains_key(txn, k) {
                return Err(format!("map {}: contains_key({:?}) true but iter does not yield it", name, k));
            }
            if let Some(g) = m.get(txn, k) {
                return Err(format!("map {}: get({:?})={} but iter does not yield it", name, k, out_str(txn, &g)));
            }
        }
    }
    match m.to_json(txn) {
        Any::Map(js) => {
            let mut jk: Vec<String> = js.keys().cloned().collect();
            jk.sort();
            if jk != ekeys {
                return Err(format!("map {}: to_json keys {:?} but iter keys {:?}", name, jk, ekeys));
            }
        }
        other => return Err(format!("map {}: to_json is not a map: {}", name, dump::any_str(&other))),
    }
    Ok(())
}

fn check_xml<T: ReadTxn>(txn: &T, f: &XmlFragmentRef, kind: Kind, name: &str) -> Result<(), String> {
    let children: Vec<XmlOut> = f.children(txn).collect();
    let ids: Vec<String> = children.iter().map(xml_id).collect();
    let len = f.len(txn) as usize;
    if len != children.len() {
        return Err(format!("xml {}: len()={} but children() yields {}", name, len, children.len()));
    }
    match (f.first_child(), children.first()) {
        (None, None) => {}
        (Some(a), Some(b)) if xml_id(&a) == xml_id(b) => {}
        (a, b) => {
            return Err(format!(
                "xml {}: first_child()={:?} but children() starts with {:?}",
                name,
                a.as_ref().map(xml_id),
                b.map(xml_id)
            ))
        }
    }
    for (i, c) in children.iter().enumerate() {
        match f.get(txn, i as u32) {
            Some(g) if xml_id(&g) == ids[i] => {}
            other => {
                return Err(format!(
                    "xml {}: get({})={:?} but children()[{}]={}",
                    name,
                    i,
                    other.as_ref().map(xml_id),
                    i,
                    ids[i]
                ))
            }
        }
        // parent
        let parent = match c {
            XmlOut::Element(e) => e.parent(),
            XmlOut::Text(t) => t.parent(),
            XmlOut::Fragment(_) => None,
        };
        let me = {
            use yrs::SharedRef;
            format!("{:?}", f.hook().id())
        };
        if !matches!(c, XmlOut::Fragment(_)) {
            match parent {
                Some(p) if xml_id(&p) == me => {}
                other => {
                    return Err(format!(
                        "xml {}: child {} reports parent {:?}, expected {}",
                        name,
                        ids[i],
                        other.as_ref().map(xml_id),
                        me
                    ))
                }
            }
        }
        // siblings, both directions
        let (fwd, back): (Vec<String>, Vec<String>) = match c {
            XmlOut::Element(e) => (
                e.siblings(txn).map(|x| xml_id(&x)).collect(),
                e.siblings(txn).rev().map(|x| xml_id(&x)).collect(),
            ),
            XmlOut::Text(t) => (
                t.siblings(txn).map(|x| xml_id(&x)).collect(),
                t.siblings(txn).rev().map(|x| xml_id(&x)).collect(),
            ),
            XmlOut::Fragment(_) => (ids[i + 1..].to_vec(), ids[..i].iter().rev().cloned().collect()),
        };
        if fwd != ids[i + 1..].to_vec() {
            return Err(format!(
                "xml {}: siblings() after child {} = {:?} but children() continues with {:?}",
                name,
                ids[i],
                fwd,
                &ids[i + 1..]
            ));
        }
        let eb: Vec<String> = ids[..i].iter().rev().cloned().collect();
        if back != eb {
            return Err(format!(
                "xml {}: siblings().rev() before child {} = {:?} but children() has {:?}",
                name, ids[i], back, eb
            ));
        }
    }
    if f.get(txn, len as u32).is_some() {
        return Err(format!("xml {}: get(len={}) is not None", name, len));
    }
    // rendered string
    let inner: String = children.iter().map(|c| xml_string(txn, c)).collect();
    if kind == Kind::XmlElement {
        let e = XmlElementRef::from(BranchPtr::from(f.as_ref() as &yrs::branch::Branch));
        let mut exp = format!("<{}", e.tag());
        for (k, v) in e.attributes(txn) {
            exp.push_str(&format!(" {}=\"{}\"", k, v.to_string(txn)));
        }
        exp.push('>');
        exp.push_str(&inner);
        exp.push_str(&format!("</{}>", e.tag()));
        let got = e.get_string(txn);
        if got != exp {
            return Err(format!("xml {}: rendered string {:?} but attributes()/children() describe {:?}", name, got, exp));
        }
        // attributes: iterator vs get_attribute
        for (k, v) in e.attributes(txn) {
            match e.get_attribute(txn, k) {
                Some(g) if out_str(txn, &g) == out_str(txn, &v) => {}
                other => {
                    return Err(format!(
                        "xml {}: attributes() yields {}={} but get_attribute gives {:?}",
                        name,
                        k,
                        out_str(txn, &v),
                        other.map(|o| out_str(txn, &o))
                    ))
                }
            }
        }
    } else {
        let got = f.get_string(txn);
        if got != inner {
            return Err(format!("xml {}: rendered string {:?} but children render as {:?}", name, got, inner));
        }
    }
    // successors == depth-first walk over children()
    let mut exp = Vec::new();
    fn dfs<T: ReadTxn>(txn: &T, nodes: &[XmlOut], acc: &mut Vec<String>) {
        for n in nodes {
            acc.push(xml_id(n));
            match n {
                XmlOut::Element(e) => {
                    let ch: Vec<XmlOut> = e.children(txn).collect();
                    dfs(txn, &ch, acc);
                }
                XmlOut::Fragment(e) => {
                    let ch: Vec<XmlOut> = e.children(txn).collect();
                    dfs(txn, &ch, acc);
                }
                XmlOut::Text(_) => {}
            }
        }
    }
    dfs(txn, &children, &mut exp);
    let got: Vec<String> = f.successors(txn).map(|x| xml_id(&x)).collect();
    if got != exp {
        return Err(format!("xml {}: successors()={:?} but depth-first walk over children() gives {:?}", name, got, exp));
    }
    Ok(())
}

/// all read-path comparisons for every live type of the replica
pub fn check_reads<T: ReadTxn>(txn: &T, okind: OffsetKind) -> Result<u32, String> {
    let types = ops::walk(txn);
    let mut n = 0;
    for ti in types.iter() {
        let Some(ptr) = ops::resolve(txn, &ti.tgt, ti.kind) else { continue };
        let name = format!("{:?}", ti.tgt);
        match ti.kind {
            Kind::Array => check_array(txn, &ArrayRef::from(ptr), &name)?,
            Kind::Text => check_text(txn, &TextRef::from(ptr), &name, okind, false)?,
            Kind::XmlText => check_text(txn, &TextRef::from(ptr), &name, okind, true)?,
            Kind::Map => check_map(txn, &MapRef::from(ptr), &name)?,
            Kind::XmlFragment | Kind::XmlElement => check_xml(txn, &XmlFragmentRef::from(ptr), ti.kind, &name)?,
        }
        n += 1;
    }
    Ok(n)
}
