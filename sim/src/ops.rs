//! Workload operations: serialisable, *tolerant* (every op is executable in every state — positions
//! are taken modulo the current length, an op on a dead or mistyped handle is a no-op), so that any
//! subsequence of a trace can be executed (DESIGN.md §3.2).

use crate::dump;
use serde::{Deserialize, Serialize};
use std::collections::HashMap;
use std::sync::Arc;
use yrs::branch::BranchPtr;
use yrs::types::{Attrs, TypeRef};
use yrs::{
    Any, Array, ArrayPrelim, ArrayRef, BranchID, Doc, In, Map, MapPrelim, MapRef, OffsetKind,
    Options, Out, ReadTxn, SharedRef, Text, TextPrelim, TextRef, TransactionMut, Xml,
    XmlElementPrelim, XmlElementRef, XmlFragment, XmlFragmentRef, XmlTextPrelim, XmlTextRef, ID,
};

#[derive(Serialize, Deserialize, Clone, Debug, PartialEq, Eq, Hash, PartialOrd, Ord)]
pub enum Tgt {
    R(String),
    N(u64, u32),
}

impl Tgt {
    pub fn from_branch_id(id: &BranchID) -> Tgt {
        match id {
            BranchID::Root(n) => Tgt::R(n.to_string()),
            BranchID::Nested(id) => Tgt::N(id.client.get(), id.clock),
        }
    }
    pub fn to_branch_id(&self) -> BranchID {
        match self {
            Tgt::R(n) => BranchID::Root(Arc::from(n.as_str())),
            Tgt::N(c, k) => BranchID::Nested(ID::new(yrs::block::ClientID::new(*c), *k)),
        }
    }
}

#[derive(Serialize, Deserialize, Clone, Copy, Debug, PartialEq, Eq, Hash, PartialOrd, Ord)]
pub enum Kind {
    Text,
    Array,
    Map,
    XmlFragment,
    XmlElement,
    XmlText,
}

pub fn kind_of(tr: &TypeRef) -> Option<Kind> {
    match tr {
        TypeRef::Text => Some(Kind::Text),
        TypeRef::Array => Some(Kind::Array),
        TypeRef::Map => Some(Kind::Map),
        TypeRef::XmlFragment => Some(Kind::XmlFragment),
        TypeRef::XmlElement(_) => Some(Kind::XmlElement),
        TypeRef::XmlText => Some(Kind::XmlText),
        _ => None,
    }
}

/// resolves a logical target to a live branch of the expected kind
pub fn resolve<T: ReadTxn>(txn: &T, tgt: &Tgt, kind: Kind) -> Option<BranchPtr> {
    let ptr = tgt.to_branch_id().get_branch(txn)?;
    if ptr.is_deleted() {
        return None;
    }
    if kind_of(ptr.type_ref()) != Some(kind) {
        return None;
    }
    Some(ptr)
}

pub fn resolve_any<T: ReadTxn>(txn: &T, tgt: &Tgt) -> Option<(BranchPtr, Kind)> {
    let ptr = tgt.to_branch_id().get_branch(txn)?;
    if ptr.is_deleted() {
        return None;
    }
    let k = kind_of(ptr.type_ref())?;
    Some((ptr, k))
}

#[derive(Serialize, Deserialize, Clone, Debug, PartialEq)]
pub enum Val {
    Null,
    Bool(bool),
    Int(i64),
    Num(f64),
    Str(String),
    Buf(Vec<u8>),
    Arr(Vec<Val>),
    Obj(Vec<(String, Val)>),
    // shared types
    Text(String),
    Array(Vec<Val>),
    Map(Vec<(String, Val)>),
    XmlElem(String, Vec<Val>),
    XmlText(String),
    Doc(String),
}

impl Val {
    pub fn is_any(&self) -> bool {
        matches!(
            self,
            Val::Null
                | Val::Bool(_)
                | Val::Int(_)
                | Val::Num(_)
                | Val::Str(_)
                | Val::Buf(_)
                | Val::Arr(_)
                | Val::Obj(_)
        )
    }
    pub fn to_any(&self) -> Any {
        match self {
            Val::Null => Any::Null,
            Val::Bool(b) => Any::Bool(*b),
            Val::Int(i) => Any::BigInt(*i),
            Val::Num(n) => Any::Number(*n),
            Val::Str(s) => Any::String(Arc::from(s.as_str())),
            Val::Buf(b) => Any::Buffer(Arc::from(b.as_slice())),
            Val::Arr(xs) => Any::Array(xs.iter().map(|x| x.to_any()).collect()),
            Val::Obj(kv) => {
                let m: HashMap<String, Any> =
                    kv.iter().map(|(k, v)| (k.clone(), v.to_any())).collect();
                Any::Map(Arc::new(m))
            }
            _ => Any::Null,
        }
    }
    pub fn to_in(&self) -> In {
        match self {
            Val::Text(s) => In::Text(TextPrelim::new(s.as_str()).into()),
            Val::Array(xs) => In::Array(ArrayPrelim::from(
                xs.iter().map(|x| x.to_in()).collect::<Vec<In>>(),
            )),
            Val::Map(kv) => In::Map(MapPrelim::from_iter(
                kv.iter().map(|(k, v)| (k.clone(), v.to_in())),
            )),
            Val::XmlElem(tag, ch) => In::XmlElement(XmlElementPrelim::new(
                tag.as_str(),
                ch.iter().filter_map(|c| c.to_xml_in()),
            )),
            Val::XmlText(s) => In::XmlText(XmlTextPrelim::new(s.as_str()).into()),
            Val::Doc(guid) => In::Doc(subdoc(guid)),
            other => In::Any(other.to_any()),
        }
    }
    pub fn to_xml_in(&self) -> Option<yrs::types::xml::XmlIn> {
        use yrs::types::xml::XmlIn;
        match self {
            Val::XmlElem(tag, ch) => Some(XmlIn::Element(XmlElementPrelim::new(
                tag.as_str(),
                ch.iter().filter_map(|c| c.to_xml_in()),
            ))),
            Val::XmlText(s) => Some(XmlIn::Text(XmlTextPrelim::new(s.as_str()).into())),
            _ => None,
        }
    }
}

pub fn subdoc(guid: &str) -> Doc {
    let mut o = Options::with_guid_and_client_id(Arc::from(guid), yrs::block::ClientID::new(999));
    o.skip_gc = true;
    Doc::with_options(o)
}

pub type AttrSpec = Vec<(String, Val)>;

/// JSON-carried values (format attributes and embeds travel as JSON text in lib0 v1, which has
/// no integer/float distinction): integers are given as `Number`, which is what any peer reads back
pub fn to_json_any(v: &Val) -> Any {
    match v {
        Val::Int(i) => Any::Number(*i as f64),
        Val::Arr(xs) => Any::Array(xs.iter().map(to_json_any).collect()),
        Val::Obj(kv) => {
            let m: HashMap<String, Any> = kv.iter().map(|(k, v)| (k.clone(), to_json_any(v))).collect();
            Any::Map(Arc::new(m))
        }
        Val::Buf(_) => Any::Null,
        other => other.to_any(),
    }
}

pub fn to_attrs(a: &AttrSpec) -> Attrs {
    a.iter()
        .map(|(k, v)| (Arc::from(k.as_str()), to_json_any(v)))
        .collect()
}

#[derive(Serialize, Deserialize, Clone, Debug, PartialEq)]
pub enum Op {
    /// text / xml-text: insert `s` before unit `pos` (mod len+1), optionally with attributes
    TInsert { t: Tgt, k: Kind, pos: u32, s: String, attrs: Option<AttrSpec> },
    TEmbed { t: Tgt, k: Kind, pos: u32, v: Val, attrs: Option<AttrSpec> },
    TFormat { t: Tgt, k: Kind, pos: u32, len: u32, attrs: AttrSpec },
    TRemove { t: Tgt, k: Kind, pos: u32, len: u32 },
    TPush { t: Tgt, k: Kind, s: String },
    AInsert { t: Tgt, pos: u32, vals: Vec<Val> },
    APush { t: Tgt, front: bool, v: Val },
    ARemove { t: Tgt, pos: u32, len: u32 },
    MSet { t: Tgt, key: String, v: Val },
    MUpdate { t: Tgt, key: String, v: Val },
    MRemove { t: Tgt, key: String },
    MClear { t: Tgt },
    XInsert { t: Tgt, k: Kind, pos: u32, v: Val },
    XRemove { t: Tgt, k: Kind, pos: u32, len: u32 },
    XAttrSet { t: Tgt, k: Kind, key: String, v: String },
    XAttrRemove { t: Tgt, k: Kind, key: String },
}

impl Op {
    pub fn target(&self) -> &Tgt {
        match self {
            Op::TInsert { t, .. }
            | Op::TEmbed { t, .. }
            | Op::TFormat { t, .. }
            | Op::TRemove { t, .. }
            | Op::TPush { t, .. }
            | Op::AInsert { t, .. }
            | Op::APush { t, .. }
            | Op::ARemove { t, .. }
            | Op::MSet { t, .. }
            | Op::MUpdate { t, .. }
            | Op::MRemove { t, .. }
            | Op::MClear { t }
            | Op::XInsert { t, .. }
            | Op::XRemove { t, .. }
            | Op::XAttrSet { t, .. }
            | Op::XAttrRemove { t, .. } => t,
        }
    }
    pub fn name(&self) -> &'static str {
        match self {
            Op::TInsert { .. } => "t-insert",
            Op::TEmbed { .. } => "t-embed",
            Op::TFormat { .. } => "t-format",
            Op::TRemove { .. } => "t-remove",
            Op::TPush { .. } => "t-push",
            Op::AInsert { .. } => "a-insert",
            Op::APush { .. } => "a-push",
            Op::ARemove { .. } => "a-remove",
            Op::MSet { .. } => "m-set",
            Op::MUpdate { .. } => "m-update",
            Op::MRemove { .. } => "m-remove",
            Op::MClear { .. } => "m-clear",
            Op::XInsert { .. } => "x-insert",
            Op::XRemove { .. } => "x-remove",
            Op::XAttrSet { .. } => "x-attr-set",
            Op::XAttrRemove { .. } => "x-attr-remove",
        }
    }
}

pub fn unit_len(u: &dump::TextUnit, kind: OffsetKind) -> u32 {
    match u.ch {
        Some(c) => match kind {
            OffsetKind::Bytes => c.len_utf8() as u32,
            OffsetKind::Utf16 => c.len_utf16() as u32,
        },
        None => 1,
    }
}

/// offset (in the document's unit) of the gap before unit `k`
pub fn unit_offset(units: &[dump::TextUnit], k: usize, kind: OffsetKind) -> u32 {
    units[..k].iter().map(|u| unit_len(u, kind)).sum()
}

fn text_ref_of(ptr: BranchPtr) -> TextRef {
    TextRef::from(ptr)
}

/// Executes one op inside `txn`. Returns true if something was attempted (target resolved).
pub fn exec_op(txn: &mut TransactionMut, op: &Op) -> bool {
    let okind = txn.doc().offset_kind();
    match op {
        Op::TInsert { t, k, pos, s, attrs } => {
            let Some(ptr) = resolve(txn, t, *k) else { return false };
            if s.is_empty() {
                return false;
            }
            let tr = text_ref_of(ptr);
            let units = dump::text_units(txn, &tr);
            let p = (*pos as usize) % (units.len() + 1);
            let off = unit_offset(&units, p, okind);
            match attrs {
                Some(a) => tr.insert_with_attributes(txn, off, s, to_attrs(a)),
                None => tr.insert(txn, off, s),
            }
            true
        }
        Op::TPush { t, k, s } => {
            let Some(ptr) = resolve(txn, t, *k) else { return false };
            if s.is_empty() {
                return false;
            }
            let tr = text_ref_of(ptr);
            tr.push(txn, s);
            true
        }
        Op::TEmbed { t, k, pos, v, attrs } => {
            let Some(ptr) = resolve(txn, t, *k) else { return false };
            let tr = text_ref_of(ptr);
            let units = dump::text_units(txn, &tr);
            let p = (*pos as usize) % (units.len() + 1);
            let off = unit_offset(&units, p, okind);
            match (v, attrs) {
                (Val::Text(s), None) => {
                    tr.insert_embed(txn, off, TextPrelim::new(s.as_str()));
                }
                (Val::Text(s), Some(a)) => {
                    tr.insert_embed_with_attributes(
                        txn,
                        off,
                        TextPrelim::new(s.as_str()),
                        to_attrs(a),
                    );
                }
                (Val::Map(kv), a) => {
                    let p = MapPrelim::from_iter(kv.iter().map(|(k, v)| (k.clone(), v.to_in())));
                    match a {
                        None => {
                            tr.insert_embed(txn, off, p);
                        }
                        Some(a) => {
                            tr.insert_embed_with_attributes(txn, off, p, to_attrs(a));
                        }
                    }
                }
                (Val::Array(xs), a) => {
                    let p = ArrayPrelim::from(xs.iter().map(|x| x.to_in()).collect::<Vec<In>>());
                    match a {
                        None => {
                            tr.insert_embed(txn, off, p);
                        }
                        Some(a) => {
                            tr.insert_embed_with_attributes(txn, off, p, to_attrs(a));
                        }
                    }
                }
                (other, a) => {
                    let any = to_json_any(other);
                    match a {
                        None => {
                            tr.insert_embed(txn, off, any);
                        }
                        Some(a) => {
                            tr.insert_embed_with_attributes(txn, off, any, to_attrs(a));
                        }
                    }
                }
            }
            true
        }
        Op::TFormat { t, k, pos, len, attrs } => {
            let Some(ptr) = resolve(txn, t, *k) else { return false };
            let tr = text_ref_of(ptr);
            let units = dump::text_units(txn, &tr);
            if units.is_empty() || attrs.is_empty() {
                return false;
            }
            let p = (*pos as usize) % units.len();
            let n = ((*len as usize).max(1)).min(units.len() - p);
            let off = unit_offset(&units, p, okind);
            let l = unit_offset(&units, p + n, okind) - off;
            tr.format(txn, off, l, to_attrs(attrs));
            true
        }
        Op::TRemove { t, k, pos, len } => {
            let Some(ptr) = resolve(txn, t, *k) else { return false };
            let tr = text_ref_of(ptr);
            let units = dump::text_units(txn, &tr);
            if units.is_empty() {
                return false;
            }
            let p = (*pos as usize) % units.len();
            let n = ((*len as usize).max(1)).min(units.len() - p);
            let off = unit_offset(&units, p, okind);
            let l = unit_offset(&units, p + n, okind) - off;
            tr.remove_range(txn, off, l);
            true
        }
        Op::AInsert { t, pos, vals } => {
            let Some(ptr) = resolve(txn, t, Kind::Array) else { return false };
            if vals.is_empty() {
                return false;
            }
            let ar = ArrayRef::from(ptr);
            let len = ar.len(txn);
            let p = *pos % (len + 1);
            if vals.len() == 1 {
                ar.insert(txn, p, vals[0].to_in());
            } else if vals.iter().all(|v| v.is_any()) {
                ar.insert_range(txn, p, vals.iter().map(|v| v.to_any()));
            } else {
                for (i, v) in vals.iter().enumerate() {
                    ar.insert(txn, p + i as u32, v.to_in());
                }
            }
            true
        }
        Op::APush { t, front, v } => {
            let Some(ptr) = resolve(txn, t, Kind::Array) else { return false };
            let ar = ArrayRef::from(ptr);
            if *front {
                ar.push_front(txn, v.to_in());
            } else {
                ar.push_back(txn, v.to_in());
            }
            true
        }
        Op::ARemove { t, pos, len } => {
            let Some(ptr) = resolve(txn, t, Kind::Array) else { return false };
            let ar = ArrayRef::from(ptr);
            let l = ar.len(txn);
            if l == 0 {
                return false;
            }
            let p = *pos % l;
            let n = (*len).max(1).min(l - p);
            if n == 1 {
                ar.remove(txn, p);
            } else {
                ar.remove_range(txn, p, n);
            }
            true
        }
        Op::MSet { t, key, v } => {
            let Some(ptr) = resolve(txn, t, Kind::Map) else { return false };
            let m = MapRef::from(ptr);
            m.insert(txn, key.as_str(), v.to_in());
            true
        }
        Op::MUpdate { t, key, v } => {
            let Some(ptr) = resolve(txn, t, Kind::Map) else { return false };
            let m = MapRef::from(ptr);
            if v.is_any() {
                m.try_update(txn, key.as_str(), v.to_any());
            } else {
                m.insert(txn, key.as_str(), v.to_in());
            }
            true
        }
        Op::MRemove { t, key } => {
            let Some(ptr) = resolve(txn, t, Kind::Map) else { return false };
            let m = MapRef::from(ptr);
            m.remove(txn, key.as_str());
            true
        }
        Op::MClear { t } => {
            let Some(ptr) = resolve(txn, t, Kind::Map) else { return false };
            let m = MapRef::from(ptr);
            m.clear(txn);
            true
        }
        Op::XInsert { t, k, pos, v } => {
            if !matches!(k, Kind::XmlFragment | Kind::XmlElement) {
                return false;
            }
            let Some(ptr) = resolve(txn, t, *k) else { return false };
            let Some(x) = v.to_xml_in() else { return false };
            let f = XmlFragmentRef::from(ptr);
            let len = f.len(txn);
            f.insert(txn, *pos % (len + 1), x);
            true
        }
        Op::XRemove { t, k, pos, len } => {
            if !matches!(k, Kind::XmlFragment | Kind::XmlElement) {
                return false;
            }
            let Some(ptr) = resolve(txn, t, *k) else { return false };
            let f = XmlFragmentRef::from(ptr);
            let l = f.len(txn);
            if l == 0 {
                return false;
            }
            let p = *pos % l;
            let n = (*len).max(1).min(l - p);
            f.remove_range(txn, p, n);
            true
        }
        Op::XAttrSet { t, k, key, v } => {
            let Some(ptr) = resolve(txn, t, *k) else { return false };
            match k {
                Kind::XmlElement => {
                    XmlElementRef::from(ptr).insert_attribute(txn, key.as_str(), v.as_str());
                }
                Kind::XmlText => {
                    XmlTextRef::from(ptr).insert_attribute(txn, key.as_str(), v.as_str());
                }
                _ => return false,
            }
            true
        }
        Op::XAttrRemove { t, k, key } => {
            let Some(ptr) = resolve(txn, t, *k) else { return false };
            match k {
                Kind::XmlElement => XmlElementRef::from(ptr).remove_attribute(txn, key),
                Kind::XmlText => XmlTextRef::from(ptr).remove_attribute(txn, key),
                _ => return false,
            }
            true
        }
    }
}

/// what the generator sees of one live shared type on the acting replica
#[derive(Clone, Debug)]
pub struct TypeInfo {
    pub tgt: Tgt,
    pub kind: Kind,
    pub depth: u32,
    /// number of visible units / elements / entries
    pub len: u32,
    pub keys: Vec<String>,
}

fn push_out<T: ReadTxn>(txn: &T, v: &Out, depth: u32, acc: &mut Vec<TypeInfo>) {
    match v {
        Out::YText(t) => walk_text(txn, t, Kind::Text, depth, acc),
        Out::YXmlText(t) => {
            let tr: &TextRef = t.as_ref();
            walk_text(txn, tr, Kind::XmlText, depth, acc)
        }
        Out::YArray(a) => walk_array(txn, a, depth, acc),
        Out::YMap(m) => walk_map(txn, m, depth, acc),
        Out::YXmlElement(e) => {
            let f: &XmlFragmentRef = e.as_ref();
            walk_xml(txn, f, Kind::XmlElement, depth, acc)
        }
        Out::YXmlFragment(f) => walk_xml(txn, f, Kind::XmlFragment, depth, acc),
        _ => {}
    }
}

fn walk_text<T: ReadTxn>(txn: &T, t: &TextRef, kind: Kind, depth: u32, acc: &mut Vec<TypeInfo>) {
    use yrs::types::text::YChange;
    let diffs = t.diff(txn, YChange::identity);
    let mut n = 0u32;
    let mut nested = Vec::new();
    for d in diffs.iter() {
        match &d.insert {
            Out::Any(Any::String(s)) => n += s.chars().count() as u32,
            other => {
                n += 1;
                nested.push(other.clone());
            }
        }
    }
    acc.push(TypeInfo {
        tgt: Tgt::from_branch_id(t.hook().id()),
        kind,
        depth,
        len: n,
        keys: vec![],
    });
    for o in nested {
        push_out(txn, &o, depth + 1, acc);
    }
}

fn walk_array<T: ReadTxn>(txn: &T, a: &ArrayRef, depth: u32, acc: &mut Vec<TypeInfo>) {
    let items: Vec<Out> = a.iter(txn).collect();
    acc.push(TypeInfo {
        tgt: Tgt::from_branch_id(a.hook().id()),
        kind: Kind::Array,
        depth,
        len: items.len() as u32,
        keys: vec![],
    });
    for o in items {
        push_out(txn, &o, depth + 1, acc);
    }
}

fn walk_map<T: ReadTxn>(txn: &T, m: &MapRef, depth: u32, acc: &mut Vec<TypeInfo>) {
    let mut entries: Vec<(String, Out)> = m.iter(txn).map(|(k, v)| (k.to_string(), v)).collect();
    entries.sort_by(|a, b| a.0.cmp(&b.0));
    acc.push(TypeInfo {
        tgt: Tgt::from_branch_id(m.hook().id()),
        kind: Kind::Map,
        depth,
        len: entries.len() as u32,
        keys: entries.iter().map(|e| e.0.clone()).collect(),
    });
    for (_, o) in entries {
        push_out(txn, &o, depth + 1, acc);
    }
}

fn walk_xml<T: ReadTxn>(
    txn: &T,
    f: &XmlFragmentRef,
    kind: Kind,
    depth: u32,
    acc: &mut Vec<TypeInfo>,
) {
    let children: Vec<yrs::XmlOut> = f.children(txn).collect();
    let mut keys: Vec<String> = if kind == Kind::XmlElement {
        let e = XmlElementRef::from(BranchPtr::from(f.as_ref() as &yrs::branch::Branch));
        e.attributes(txn).map(|(k, _)| k.to_string()).collect()
    } else {
        vec![]
    };
    keys.sort();
    acc.push(TypeInfo {
        tgt: Tgt::from_branch_id(f.hook().id()),
        kind,
        depth,
        len: children.len() as u32,
        keys,
    });
    for c in children {
        match c {
            yrs::XmlOut::Element(e) => {
                let f: &XmlFragmentRef = e.as_ref();
                walk_xml(txn, f, Kind::XmlElement, depth + 1, acc)
            }
            yrs::XmlOut::Fragment(f) => walk_xml(txn, &f, Kind::XmlFragment, depth + 1, acc),
            yrs::XmlOut::Text(t) => {
                let tr: &TextRef = t.as_ref();
                walk_text(txn, tr, Kind::XmlText, depth + 1, acc)
            }
        }
    }
}

/// all live shared types reachable from the declared roots, in deterministic order
pub fn walk<T: ReadTxn>(txn: &T) -> Vec<TypeInfo> {
    let mut acc = Vec::new();
    if let Some(t) = txn.get_text(dump::ROOT_TEXT) {
        walk_text(txn, &t, Kind::Text, 0, &mut acc);
    }
    if let Some(a) = txn.get_array(dump::ROOT_ARRAY) {
        walk_array(txn, &a, 0, &mut acc);
    }
    if let Some(m) = txn.get_map(dump::ROOT_MAP) {
        walk_map(txn, &m, 0, &mut acc);
    }
    if let Some(x) = txn.get_xml_fragment(dump::ROOT_XML) {
        walk_xml(txn, &x, Kind::XmlFragment, 0, &mut acc);
    }
    acc
}
