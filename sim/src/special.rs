//! Profile-specific events (generated, executed, checked): self-diff and fix-point exchanges (C06),
//! crash/restart from the durable log (C07), rebuild from a GC'ed replica (C15), the document-free
//! update algebra (C08). Further profiles dispatch from here to their own modules.

use crate::bits::BitSet;
use crate::monitors::{Pre, TxnKind};
use crate::ops::Op;
use crate::world::*;
use std::rc::Rc;
use yrs::updates::decoder::Decode;
use yrs::updates::encoder::Encode;
use yrs::{ReadTxn, StateVector, Transact, Update};

pub struct SpecialState {
    pub seq: crate::seqmon::SeqState,
}

impl SpecialState {
    pub fn new(cfg: &RunCfg, nodes: &[Node]) -> SpecialState {
        SpecialState {
            seq: crate::seqmon::SeqState::new(cfg, nodes),
        }
    }
}

pub fn pre_txn(w: &mut World, n: usize, p: &mut Pre) {
    crate::seqmon::pre_txn(w, n, p);
}

pub fn post_txn(w: &mut World, n: usize, kind: &TxnKind, uid: Option<usize>, pre: &Pre, ops: &[Op]) -> VResult {
    crate::seqmon::post_txn(w, n, kind, uid, pre, ops)
}

pub fn at_quiescence(w: &mut World) -> VResult {
    crate::seqmon::at_quiescence(w)
}

pub fn draw_origin(w: &mut World, n: usize) -> Option<String> {
    crate::undomon::draw_origin(w, n)
}

fn sp(n: usize, k: &str, a: Vec<u64>) -> Ev {
    Ev::Special {
        n,
        k: k.to_string(),
        a,
        s: vec![],
    }
}

pub fn draw(w: &mut World) -> Option<Ev> {
    let nn = w.nodes.len();
    let n = w.rng.idx(nn);
    match w.cfg.profile.as_str() {
        "svsync" => {
            if w.rng.chance(60) {
                Some(sp(n, "selfdiff", vec![w.rng.below(2)]))
            } else {
                let mut b = w.rng.idx(nn - 1);
                if b >= n {
                    b += 1;
                }
                Some(sp(n, "fixpoint", vec![b as u64, w.rng.below(2)]))
            }
        }
        "log" => {
            let keep = w.rng.below(1000);
            Some(sp(n, "crash", vec![keep]))
        }
        "gc" => {
            if w.cfg.sticky_undo && w.rng.chance(50) {
                // undo manager on node 0 (shared with the sticky profile's plumbing)
                Some(sp(0, if w.rng.chance(65) { "sundo" } else { "sredo" }, vec![]))
            } else {
                Some(sp(n, "rebuild", vec![w.rng.below(2)]))
            }
        }
        "relay" => {
            if w.rng.chance(50) {
                // merge 2..4 in-flight messages that go to the same node
                let cands: Vec<usize> = (0..w.inflight.len()).filter(|i| !w.inflight[*i].held).collect();
                if cands.len() < 2 {
                    return None;
                }
                let first = *w.rng.pick(&cands);
                let to = w.inflight[first].to;
                let mut same: Vec<usize> = cands.iter().cloned().filter(|i| w.inflight[*i].to == to).collect();
                if same.len() < 2 {
                    return None;
                }
                w.rng.shuffle(&mut same);
                let k = w.rng.range(2, same.len().min(4) as u64) as usize;
                let mut a = vec![w.rng.below(4)];
                for i in same.iter().take(k) {
                    a.push(w.inflight[*i].id.0 as u64);
                    a.push(w.inflight[*i].id.1 as u64);
                }
                Some(sp(to, "merge", a))
            } else {
                if w.mon.pool.len() < 2 {
                    return None;
                }
                let k = w.rng.range(2, 5) as usize;
                let mut a = vec![w.rng.below(1 << 16)];
                for _ in 0..k {
                    a.push(w.rng.below(w.mon.pool.len() as u64));
                }
                Some(sp(n, "algebra", a))
            }
        }
        _ => crate::seqmon::draw(w),
    }
}

pub fn exec(w: &mut World, n: usize, k: &str, a: &[u64], s: &[String]) -> VResult {
    if n >= w.nodes.len() {
        return Ok(());
    }
    match k {
        "selfdiff" => selfdiff(w, n, a.first().copied().unwrap_or(0) == 1),
        "fixpoint" => {
            let b = a.first().copied().unwrap_or(0) as usize;
            if b >= w.nodes.len() || b == n {
                return Ok(());
            }
            fixpoint(w, n, b, a.get(1).copied().unwrap_or(0) == 1)
        }
        "crash" => crash(w, n, a.first().copied().unwrap_or(0)),
        "rebuild" => rebuild(w, n, a.first().copied().unwrap_or(0) == 1),
        "sundo" => crate::stickymon::sticky_undo(w, true),
        "sredo" => crate::stickymon::sticky_undo(w, false),
        "merge" => relay_merge(w, n, a),
        "algebra" => relay_algebra(w, n, a),
        _ => crate::seqmon::exec(w, n, k, a, s),
    }
}

// ---- C06 ----------------------------------------------------------------------------------------

fn selfdiff(w: &mut World, n: usize, v2: bool) -> VResult {
    let doc = w.nodes[n].doc.clone();
    let (dump0, sv0, snap0) = {
        let t = doc.transact();
        (crate::dump::dump_doc(&t), sv_vec(&t.state_vector()), t.snapshot())
    };
    let stash_before = has_missing(&doc);
    let payload = {
        let t = doc.transact();
        let sv = t.state_vector();
        Payload {
            v1: t.encode_diff_v1(&sv),
            v2: t.encode_diff_v2(&sv),
        }
    };
    if let Err(e) = apply_payload(&doc, &payload, if v2 { Enc::V2 } else { Enc::V1 }) {
        return Err(viol(
            "svsync.selfdiff",
            format!("node {} cannot apply its own diff against its own state vector: {}", n, e),
        ));
    }
    w.collect_emission(n, false)?;
    w.stats.oracle_evals += 1;
    let t = doc.transact();
    let dump1 = crate::dump::dump_doc(&t);
    let sv1 = sv_vec(&t.state_vector());
    let snap1 = t.snapshot();
    if dump0 != dump1 || sv0 != sv1 || snap0 != snap1 {
        // known finding F19 (stash family) is identified by the replica holding a stash before the
        // exchange and less or none afterwards: the diff itself added nothing, applying it gave
        // the stash the retry it should have had when its dependencies arrived
        let from_stash = stash_before && sv_ge(&sv1, &sv0);
        return Err(viol(
            if from_stash { "svsync.selfdiff-stashed" } else { "svsync.selfdiff" },
            format!(
                "node {}: applying encode_diff(own state vector) to itself changed it\n  before: {} {:?}\n  after : {} {:?}\n  snapshot equal: {}",
                n,
                dump0,
                sv0,
                dump1,
                sv1,
                snap0 == snap1
            ),
        ));
    }
    Ok(())
}

fn sync_msg(w: &mut World, a: usize, b: usize, full: bool) -> Msg {
    let sv = w.nodes[b].doc.transact().state_vector();
    let (v1, v2, sva) = {
        let txn = w.nodes[a].doc.transact();
        let sva = sv_vec(&txn.state_vector());
        if full {
            (txn.encode_state_as_update_v1(&sv), txn.encode_state_as_update_v2(&sv), sva)
        } else {
            (txn.encode_diff_v1(&sv), txn.encode_diff_v2(&sv), sva)
        }
    };
    let id = MsgId(w.cur_eid, w.cur_k);
    w.cur_k += 1;
    w.msg_seq += 1;
    let ex = w.nodes[a].hi.clone();
    w.exposed.union_with(&ex);
    let (lo, hi) = if full {
        (w.nodes[a].lo.clone(), w.nodes[a].hi.clone())
    } else {
        (w.interior(&w.nodes[a].lo), w.nodes[a].hi.clone())
    };
    Msg {
        id,
        from: a,
        to: b,
        payload: Rc::new(Payload { v1, v2 }),
        lo,
        hi,
        kind: if full { MsgKind::Full } else { MsgKind::Diff },
        held: false,
        seq: w.msg_seq,
        sv_at_encode: Some(sva),
    }
}

fn fixpoint(w: &mut World, a: usize, b: usize, full: bool) -> VResult {
    let bound = 4 + w.mon.format_ops;
    let mut rounds = 0;
    loop {
        rounds += 1;
        let before = (
            doc_dump(&w.nodes[a].doc),
            doc_sv(&w.nodes[a].doc),
            doc_dump(&w.nodes[b].doc),
            doc_sv(&w.nodes[b].doc),
        );
        let m = sync_msg(w, a, b, full);
        w.deliver(&m)?;
        let m = sync_msg(w, b, a, full);
        w.deliver(&m)?;
        let after = (
            doc_dump(&w.nodes[a].doc),
            doc_sv(&w.nodes[a].doc),
            doc_dump(&w.nodes[b].doc),
            doc_sv(&w.nodes[b].doc),
        );
        if before == after {
            break;
        }
        if rounds > bound {
            return Err(viol(
                "svsync.fixpoint-bound",
                format!("nodes {} and {} still change after {} exchange rounds", a, b, rounds),
            ));
        }
    }
    w.stats.oracle_evals += 1;
    let (da, db) = (doc_dump(&w.nodes[a].doc), doc_dump(&w.nodes[b].doc));
    if da != db {
        let stashed = has_missing(&w.nodes[a].doc) || has_missing(&w.nodes[b].doc);
        return Err(viol(
            if stashed { "svsync.fixpoint-stashed" } else { "svsync.fixpoint" },
            format!(
                "nodes {} and {} exchanged {} in both directions until neither changed but differ\n  {}: {}\n  {}: {}",
                a,
                b,
                if full { "full states" } else { "diffs" },
                a,
                da,
                b,
                db
            ),
        ));
    }
    let (sa, sb) = (doc_sv(&w.nodes[a].doc), doc_sv(&w.nodes[b].doc));
    if sa != sb {
        let stashed = has_missing(&w.nodes[a].doc) || has_missing(&w.nodes[b].doc);
        return Err(viol(
            if stashed { "svsync.fixpoint-stashed" } else { "svsync.fixpoint" },
            format!("nodes {} and {} reached a fix-point with equal content but state vectors {:?} vs {:?}", a, b, sa, sb),
        ));
    }
    Ok(())
}

// ---- C07 ----------------------------------------------------------------------------------------

fn crash(w: &mut World, n: usize, keep: u64) -> VResult {
    if w.cfg.profile != "log" {
        return Ok(());
    }
    let len = w.mon.shadow[n].durable.len();
    // The provider persists an update before it sends it: the un-synced suffix that a crash can
    // lose consists of records nobody else can have received yet. Their broadcasts are cancelled.
    let mut lostable = 0;
    while lostable < len && !w.exposed.contains(w.mon.shadow[n].durable[len - 1 - lostable].uid) {
        lostable += 1;
    }
    let lost = match keep % 10 {
        0..=2 => 0,
        3..=5 => 1.min(lostable),
        6..=7 => 2.min(lostable),
        _ => (keep as usize / 10) % (lostable + 1),
    };
    let k = len - lost;
    for i in k..len {
        let u = w.mon.shadow[n].durable[i].uid;
        w.uids[u].void = true;
        w.inflight.retain(|m| m.kind != MsgKind::Txn(u));
    }
    w.stats.f_crash += 1;
    w.mon.shadow[n].session += 1;
    let session = w.mon.shadow[n].session;
    let mut cfg = w.nodes[n].cfg.clone();
    cfg.client_id = (cfg.client_id % 1000) + 1000 * session as u64;
    let doc = make_doc(&cfg);
    let mut followers = Vec::new();
    for f in 0..3u64 {
        followers.push(passive_doc((cfg.client_id + f) % 2 == 0, cfg.utf16));
    }
    let expect = if k == 0 {
        doc_dump(&passive_doc(true, cfg.utf16))
    } else {
        w.mon.shadow[n].durable[k - 1].dump_after.clone()
    };
    // the new session: subscribed before recovery, because a replica with formatting clean-up
    // may delete redundant marks while it re-applies its log, and every update event is forwarded
    let old: Vec<crate::monitors::LogRec> = std::mem::take(&mut w.mon.shadow[n].durable);
    let (outbox, subs) = subscribe(&doc);
    {
        let node = &mut w.nodes[n];
        node.cfg = cfg.clone();
        node.doc = doc.clone();
        node.outbox = outbox;
        node.subs = subs;
        node.lo = BitSet::new();
        node.hi = BitSet::new();
        node.last_sv = vec![];
    }
    w.mon.shadow[n].followers = followers;
    let mut own = BitSet::new();
    let check_doc = passive_doc(true, cfg.utf16);
    for (i, rec) in old.into_iter().enumerate() {
        if i >= k {
            break;
        }
        let p = Payload {
            v1: rec.v1.clone(),
            v2: vec![],
        };
        if let Err(e) = apply_payload(&doc, &p, Enc::V1) {
            return Err(viol(
                "log.recovery",
                format!("node {} cannot re-apply record {} of its own durable log: {}", n, i, e),
            ));
        }
        for f in w.mon.shadow[n].followers.clone().iter() {
            let _ = apply_payload(f, &p, Enc::V1);
        }
        let _ = apply_payload(&check_doc, &p, Enc::V1);
        // Everything the replica had integrated went through a transaction whose update event is
        // in the log, so the restarted replica holds its recorded coverage, except what was only
        // stashed (lost with the volatile state); its own emissions are in the log by definition.
        own.insert(rec.uid);
        let mut lo = if rec.missing { w.interior(&rec.lo) } else { rec.lo.clone() };
        lo.union_with(&own);
        w.nodes[n].lo = lo;
        let mut hi = rec.hi.clone();
        hi.union_with(&own);
        w.nodes[n].hi = hi;
        // The record stays in the log of the new session; what "the replica showed when the record
        // was written" is from now on what the *recovering* replica shows after re-applying it (a
        // clean-up-on replica may have deleted marks here that the first session still had - those
        // deletions are in this session's log, just before or after this record).
        let mut rec = rec;
        rec.dump_after = doc_dump(&doc);
        rec.missing = has_missing(&doc);
        w.mon.shadow[n].durable.push(rec);
        // what the recovering replica emits (an echo of the record, plus clean-up deletions)
        let uid = w.collect_emission(n, false)?;
        if let Some(u) = uid {
            own.insert(u);
            let pl = w.uids[u].payload.clone();
            for (fi, f) in w.mon.shadow[n].followers.clone().iter().enumerate() {
                let enc = if fi == 1 { Enc::V2 } else { Enc::V1 };
                if let Err(e) = apply_payload(f, &pl, enc) {
                    return Err(viol("log.follower", format!("follower cannot apply an update emitted during recovery: {}", e)));
                }
            }
            let (lo, hi) = (w.nodes[n].lo.clone(), w.nodes[n].hi.clone());
            let dump_after = doc_dump(&doc);
            let missing = has_missing(&doc);
            w.mon.shadow[n].durable.push(crate::monitors::LogRec {
                uid: u,
                missing,
                v1: pl.v1.clone(),
                dump_after,
                lo,
                hi,
            });
        }
    }
    // The claim is about a replica without formatting clean-up (a clean-up-on replica may delete
    // marks earlier than the original session did): the comparison uses a passive document that
    // is rebuilt from the log prefix alone, clean-up off.
    let got = doc_dump(&check_doc);
    w.stats.oracle_evals += 1;
    if got != expect {
        return Err(viol(
            "log.recovery",
            format!(
                "node {} restarted from the first {} of {} records of its durable log of update events, but does not show the content it had when record {} was written\n  recovered: {}\n  recorded : {}",
                n,
                k,
                len,
                k,
                got,
                expect
            ),
        ));
    }
    w.nodes[n].last_sv = doc_sv(&doc);
    Ok(())
}

// ---- C15 ----------------------------------------------------------------------------------------

fn rebuild(w: &mut World, n: usize, v2: bool) -> VResult {
    let doc = w.nodes[n].doc.clone();
    let payload = {
        let t = doc.transact();
        Payload {
            v1: t.encode_state_as_update_v1(&StateVector::default()),
            v2: t.encode_state_as_update_v2(&StateVector::default()),
        }
    };
    let fresh = passive_doc(w.nodes[n].cfg.skip_gc, w.nodes[n].cfg.utf16);
    if let Err(e) = apply_payload(&fresh, &payload, if v2 { Enc::V2 } else { Enc::V1 }) {
        return Err(viol(
            "gc.rebuild",
            format!("a fresh document cannot apply the full state of node {}: {}", n, e),
        ));
    }
    w.stats.oracle_evals += 1;
    let a = doc_dump(&doc);
    let b = doc_dump(&fresh);
    if a != b {
        // known finding F19 is identified by the rebuilt document holding a stash
        return Err(viol(
            // ... or by the source holding one (blocks whose own dependencies are present sit behind
            // another stashed block of their client; the rebuilt document, which gets everything
            // at once, integrates them)
            if has_missing(&fresh) || has_missing(&doc) { "gc.rebuild-stashed" } else { "gc.rebuild" },
            format!(
                "a document rebuilt from the full state of node {} (skip_gc={}) differs from it\n  node   : {}\n  rebuilt: {}",
                n, w.nodes[n].cfg.skip_gc, a, b
            ),
        ));
    }
    if !has_missing(&doc) && has_missing(&fresh) {
        return Err(viol(
            "gc.rebuild-pending",
            format!(
                "node {} has nothing pending, but a document rebuilt from its full state reports missing updates",
                n
            ),
        ));
    }
    Ok(())
}

// ---- C08 ----------------------------------------------------------------------------------------

fn merge_payloads(ps: &[Rc<Payload>], mode: u64) -> Result<Payload, String> {
    // mode bit 0: reverse argument order; bit 1: nested (left fold of pairwise merges)
    let mut list: Vec<Rc<Payload>> = ps.to_vec();
    if mode & 1 == 1 {
        list.reverse();
    }
    if mode & 2 == 2 && list.len() > 2 {
        let mut v1 = list[0].v1.clone();
        let mut v2 = list[0].v2.clone();
        for p in list.iter().skip(1) {
            v1 = yrs::merge_updates_v1([v1.as_slice(), p.v1.as_slice()]).map_err(|e| format!("merge_updates_v1: {}", e))?;
            v2 = yrs::merge_updates_v2([v2.as_slice(), p.v2.as_slice()]).map_err(|e| format!("merge_updates_v2: {}", e))?;
        }
        Ok(Payload { v1, v2 })
    } else {
        let v1 = yrs::merge_updates_v1(list.iter().map(|p| p.v1.as_slice())).map_err(|e| format!("merge_updates_v1: {}", e))?;
        let v2 = yrs::merge_updates_v2(list.iter().map(|p| p.v2.as_slice())).map_err(|e| format!("merge_updates_v2: {}", e))?;
        Ok(Payload { v1, v2 })
    }
}

fn relay_merge(w: &mut World, to: usize, a: &[u64]) -> VResult {
    let mode = a.first().copied().unwrap_or(0);
    let mut idx = Vec::new();
    let mut i = 1;
    while i + 1 < a.len() {
        let id = MsgId(a[i] as u32, a[i + 1] as u32);
        if let Some(p) = w.inflight.iter().position(|m| m.id == id && m.to == to) {
            if !idx.contains(&p) {
                idx.push(p);
            }
        }
        i += 2;
    }
    if idx.len() < 2 {
        return Ok(());
    }
    let msgs: Vec<Msg> = idx.iter().map(|i| w.inflight[*i].clone()).collect();
    let ps: Vec<Rc<Payload>> = msgs.iter().map(|m| m.payload.clone()).collect();
    let merged = match merge_payloads(&ps, mode) {
        Ok(p) => p,
        Err(e) => return Err(viol("relay.merge-error", format!("merging {} valid in-flight payloads failed: {}", ps.len(), e))),
    };
    let mut lo = BitSet::new();
    let mut hi = BitSet::new();
    for m in msgs.iter() {
        lo.union_with(&m.lo);
        hi.union_with(&m.hi);
    }
    let mut sorted = idx.clone();
    sorted.sort();
    for i in sorted.into_iter().rev() {
        w.inflight.remove(i);
    }
    w.stats.f_relay += 1;
    let id = MsgId(w.cur_eid, w.cur_k);
    w.cur_k += 1;
    w.msg_seq += 1;
    let payload = Rc::new(merged);
    w.mon.pool.push((payload.clone(), lo.clone(), hi.clone()));
    w.inflight.push(Msg {
        id,
        from: msgs[0].from,
        to,
        payload,
        lo,
        hi,
        kind: MsgKind::Merged,
        held: false,
        seq: w.msg_seq,
        sv_at_encode: None,
    });
    Ok(())
}

fn clone_from(w: &World, n: usize) -> Result<yrs::Doc, Violation> {
    let doc = passive_doc(true, true);
    let t = w.nodes[n].doc.transact();
    let p = Payload {
        v1: t.encode_state_as_update_v1(&StateVector::default()),
        v2: vec![],
    };
    drop(t);
    apply_payload(&doc, &p, Enc::V1).map_err(|e| viol("relay.clone", format!("cannot clone node {} by full-state transfer: {}", n, e)))?;
    Ok(doc)
}

fn complete(w: &World, doc: &yrs::Doc) {
    // everything that exists: all original updates, then all full states
    for u in w.uids.iter() {
        let _ = apply_payload(doc, &u.payload, Enc::V1);
    }
    for nd in w.nodes.iter() {
        let t = nd.doc.transact();
        let p = Payload {
            v1: t.encode_state_as_update_v1(&StateVector::default()),
            v2: vec![],
        };
        drop(t);
        let _ = apply_payload(doc, &p, Enc::V1);
    }
}

fn compare_twins(w: &World, what: &str, t1: &yrs::Doc, t2: &yrs::Doc, desc: &str) -> VResult {
    let (m1, m2) = (has_missing(t1), has_missing(t2));
    // A payload that carries a block as a collected range says less than one that carries it with
    // its content: it presupposes that the block's parent is deleted, which the twins may not have
    // been told yet (a block inserted next to it is collected on sight of the range and integrated
    // on sight of the item). Where the multiset holds both versions of a block, the two ways of
    // applying it are compared once both twins have been completed with every payload of the run.
    let lossy = what.ends_with("-tombstone-dup");
    if lossy {
        complete(w, t1);
        complete(w, t2);
        if !has_missing(t1) && !has_missing(t2) {
            let (d1, d2) = (doc_dump(t1), doc_dump(t2));
            if d1 != d2 {
                return Err(viol(
                    what,
                    format!("{}: content differs after both twins were completed with every payload of the run\n  algebra : {}\n  sequence: {}", desc, d1, d2),
                ));
            }
        }
        return Ok(());
    }
    // A stash can hold a block that has meanwhile become known by another route (here: as a
    // collected range); it is only dropped when the stash is next retried, and what triggers a
    // retry depends on batching. Such a stash does not count as "missing updates".
    let obsolete = |d: &yrs::Doc| yrs::verif::stash_is_obsolete(d.transact().store());
    let (m1, m2) = (m1 && !obsolete(t1), m2 && !obsolete(t2));
    if m1 != m2 {
        return Err(viol(
            what,
            format!("{}: has_missing_updates differs ({} vs {})", desc, m1, m2),
        ));
    }
    if !m1 {
        let (d1, d2) = (doc_dump(t1), doc_dump(t2));
        if d1 != d2 {
            return Err(viol(what, format!("{}: content differs\n  algebra : {}\n  sequence: {}", desc, d1, d2)));
        }
        let (s1, s2) = (doc_sv(t1), doc_sv(t2));
        if s1 != s2 {
            return Err(viol(what, format!("{}: state vectors differ {:?} vs {:?}", desc, s1, s2)));
        }
    } else {
        // with gaps, which blocks stay stashed legitimately depends on batching: compare after completion
        complete(w, t1);
        complete(w, t2);
        if !has_missing(t1) && !has_missing(t2) {
            let (d1, d2) = (doc_dump(t1), doc_dump(t2));
            if d1 != d2 {
                return Err(viol(
                    what,
                    format!("{}: content differs after both twins were completed with every payload of the run\n  algebra : {}\n  sequence: {}", desc, d1, d2),
                ));
            }
        }
    }
    Ok(())
}

/// some block id is live in one payload and a tombstone (collected content) in another
fn tombstone_dup(ps: &[Rc<Payload>]) -> bool {
    tombstone_dup_with(ps, None)
}

/// ... or in the stash of the document the payloads are applied to
fn tombstone_dup_with(ps: &[Rc<Payload>], base: Option<&yrs::Doc>) -> bool {
    let mut sets: Vec<Vec<(yrs::ID, u32, &'static str)>> = ps
        .iter()
        // a payload of the pool may exist in one encoding only (the output of an earlier merge)
        .filter_map(|p| if p.v1.is_empty() { Update::decode_v2(&p.v2).ok() } else { Update::decode_v1(&p.v1).ok() })
        .map(|u| yrs::verif::update_blocks(&u))
        .collect();
    if let Some(doc) = base {
        let t = doc.transact();
        if let Some(p) = t.store().pending_update() {
            sets.push(yrs::verif::update_blocks(&p.update));
        }
    }
    let dead = |k: &str| k == "deleted" || k == "gc";
    for (i, a) in sets.iter().enumerate() {
        for (j, b) in sets.iter().enumerate() {
            if i == j {
                continue;
            }
            for (ida, la, ka) in a.iter() {
                if !dead(ka) {
                    continue;
                }
                for (idb, lb, kb) in b.iter() {
                    if dead(kb) || *kb == "skip" || ida.client != idb.client {
                        continue;
                    }
                    let (s1, e1) = (ida.clock, ida.clock + la);
                    let (s2, e2) = (idb.clock, idb.clock + lb);
                    if s1 < e2 && s2 < e1 {
                        return true;
                    }
                }
            }
        }
    }
    false
}

fn relay_algebra(w: &mut World, n: usize, a: &[u64]) -> VResult {
    if w.mon.pool.len() < 2 || a.len() < 3 {
        return Ok(());
    }
    let mode = a[0];
    let mut ps: Vec<Rc<Payload>> = a[1..].iter().map(|i| w.mon.pool[(*i as usize) % w.mon.pool.len()].0.clone()).collect();
    if mode & 16 == 16 {
        // A provider that answers stale or foreign state vectors: one or two more inputs are exports
        // of a replica against a state vector that cuts through its blocks at arbitrary clocks (so the
        // same clock range reaches the merge as a slice of a long squashed block from one replica, as
        // a collected range from another, and as the original small blocks from the update log).
        // The cut points are a function of the event's arguments and the world, not of the PRNG.
        let mut h = a.iter().fold(0x9E37_79B9_7F4A_7C15u64, |h, x| (h ^ x).wrapping_mul(0x1000_0000_01B3).rotate_left(23));
        let mut next = move || {
            h ^= h << 13;
            h ^= h >> 7;
            h ^= h << 17;
            h
        };
        let k = 1 + ((mode >> 5) & 1);
        for _ in 0..k {
            let m = (next() % w.nodes.len() as u64) as usize;
            let txn = w.nodes[m].doc.transact();
            let mut sv = StateVector::default();
            for (c, clock) in sv_vec(&txn.state_vector()) {
                let cut = (next() % (clock as u64 + 1)) as u32;
                if cut > 0 {
                    sv.set_max(yrs::block::ClientID::new(c), cut);
                }
            }
            let p = if next() & 1 == 0 {
                Payload { v1: txn.encode_state_as_update_v1(&sv), v2: txn.encode_state_as_update_v2(&sv) }
            } else {
                Payload { v1: txn.encode_diff_v1(&sv), v2: txn.encode_diff_v2(&sv) }
            };
            let full = txn.encode_state_as_update_v1(&StateVector::default());
            drop(txn);
            // A cut between the two halves of a surrogate pair is not an input a replica can produce
            // (no block of a yrs replica ends there) and the encoder drops the orphaned half, which
            // shifts every later clock of that client: such an export is discarded, recognised by the
            // clock ranges it covers being different from those of the full export beyond the cut.
            // canonical (sorted, merged) clock ranges an export inserts, per client, at or after `from`
            let cov = |bytes: &[u8], from: &StateVector| -> Option<Vec<(u64, Vec<(u32, u32)>)>> {
                let u = Update::decode_v1(bytes).ok()?;
                let mut out: Vec<(u64, Vec<(u32, u32)>)> = Vec::new();
                for (client, ranges) in u.insertions(true).iter() {
                    let lo = from.get(client);
                    let mut v: Vec<(u32, u32)> = ranges.iter().map(|r| (r.start.max(lo), r.end)).filter(|(a, b)| b > a).collect();
                    v.sort();
                    let mut m: Vec<(u32, u32)> = Vec::new();
                    for (a, b) in v {
                        match m.last_mut() {
                            Some(l) if a <= l.1 => l.1 = l.1.max(b),
                            _ => m.push((a, b)),
                        }
                    }
                    if !m.is_empty() {
                        out.push((client.get(), m));
                    }
                }
                out.sort();
                Some(out)
            };
            let consistent = match (cov(&p.v1, &StateVector::default()), cov(&full, &sv)) {
                (Some(a), Some(b)) => a == b,
                _ => false,
            };
            if !consistent {
                *w.stats.probes.entry("relay.mid-surrogate-cut-discarded".to_string()).or_insert(0) += 1;
                continue;
            }
            *w.stats.probes.entry("relay.mid-block-slice-input".to_string()).or_insert(0) += 1;
            ps.push(Rc::new(p));
        }
    }
    let v2 = mode & 4 == 4;
    let enc = if v2 { Enc::V2 } else { Enc::V1 };
    w.stats.f_relay += 1;
    w.stats.oracle_evals += 1;
    // 1. merge == sequence
    let merged = match merge_payloads(&ps, mode) {
        Ok(p) => p,
        Err(e) => return Err(viol("relay.merge-error", format!("merging {} valid payloads failed: {}", ps.len(), e))),
    };
    if w.verbose {
        crate::arena::outside(|| {
            for p in ps.iter() {
                eprintln!("   .. input  {:?}", decode(p, enc));
            }
            eprintln!("   .. merged {:?}", decode(&merged, enc));
            eprintln!("   .. base\n{}", yrs::verif::blocks_dump(w.nodes[n].doc.transact().store()));
        });
    }
    let t1 = clone_from(w, n)?;
    let t2 = clone_from(w, n)?;
    // (the clones are rebuilt from the node's full state: what the node integrated behind a gap
    // sits in their stash, so it is their stash that is searched for the other version of a block)
    let lossy = tombstone_dup_with(&ps, Some(&t2)) || tombstone_dup_with(&ps, Some(&w.nodes[n].doc));
    if let Err(e) = apply_payload(&t1, &merged, enc) {
        return Err(viol("relay.merge", format!("cannot apply the merge of {} valid payloads ({:?}): {}", ps.len(), enc, e)));
    }
    for p in ps.iter() {
        if let Err(e) = apply_payload(&t2, p, enc) {
            return Err(viol("relay.clone", format!("cannot apply a pool payload: {}", e)));
        }
    }
    // known finding F20 is identified by its input shape: two payloads carry the same block, one
    // with live content and one as a tombstone (content already garbage collected at its sender)
    let id = if lossy { "relay.merge-tombstone-dup" } else { "relay.merge" };
    compare_twins(w, id, &t1, &t2, &format!("merge_updates of {} payloads (mode {}) vs. applying them one by one on clones of node {}", ps.len(), mode & 7, n))?;
    // 2. two nestings / orders of the same multiset are equivalent
    let merged_b = match merge_payloads(&ps, mode ^ 3) {
        Ok(p) => p,
        Err(e) => return Err(viol("relay.merge-error", format!("merging failed: {}", e))),
    };
    let t1b = clone_from(w, n)?;
    let t1c = clone_from(w, n)?;
    let _ = apply_payload(&t1b, &merged, enc);
    if let Err(e) = apply_payload(&t1c, &merged_b, enc) {
        return Err(viol("relay.merge", format!("cannot apply a merge: {}", e)));
    }
    compare_twins(w, if lossy { "relay.merge-tombstone-dup" } else { "relay.merge-order" }, &t1b, &t1c, "two argument orders / nestings of the same multiset of payloads")?;
    // 3. diff_updates(u, sv(twin)) == u
    let t3 = clone_from(w, n)?;
    let t4 = clone_from(w, n)?;
    let sv = t3.transact().state_vector();
    let d = if v2 {
        yrs::diff_updates_v2(&merged.v2, &sv.encode_v2()).map(|b| Payload { v1: vec![], v2: b })
    } else {
        yrs::diff_updates_v1(&merged.v1, &sv.encode_v1()).map(|b| Payload { v1: b, v2: vec![] })
    };
    match d {
        Err(e) => return Err(viol("relay.diff", format!("diff_updates of a valid update failed: {}", e))),
        Ok(d) => {
            if let Err(e) = apply_payload(&t3, &d, enc) {
                return Err(viol("relay.diff", format!("cannot apply diff_updates output: {}", e)));
            }
            let _ = apply_payload(&t4, &merged, enc);
            compare_twins(w, "relay.diff", &t3, &t4, "applying diff_updates(u, sv(doc)) vs. applying u")?;
        }
    }
    // 4. encode_state_vector_from_update on a gap-free update: the original payloads of a closed set
    let closed = w.interior(&w.nodes[n].lo);
    if !closed.is_empty() && mode & 8 == 8 {
        let ps: Vec<Rc<Payload>> = closed.iter().map(|u| w.uids[u].payload.clone()).collect();
        if let Ok(m) = merge_payloads(&ps, mode & 3) {
            let empty = passive_doc(true, true);
            if apply_payload(&empty, &m, enc).is_ok() && !has_missing(&empty) {
                let want = doc_sv(&empty);
                let got = if v2 {
                    yrs::encode_state_vector_from_update_v2(&m.v2)
                } else {
                    yrs::encode_state_vector_from_update_v1(&m.v1)
                };
                match got.map_err(|e| e.to_string()).and_then(|b| if v2 { StateVector::decode_v2(&b) } else { StateVector::decode_v1(&b) }.map_err(|e| e.to_string())) {
                    Ok(svu) => {
                        let got = sv_vec(&svu);
                        if got != want {
                            return Err(viol(
                                "relay.sv-of-update",
                                format!(
                                    "encode_state_vector_from_update of the merged original updates of closed set {:?} is {:?}, an empty document after applying it has {:?}",
                                    closed.to_vec(),
                                    got,
                                    want
                                ),
                            ));
                        }
                    }
                    Err(e) => return Err(viol("relay.sv-of-update", format!("encode_state_vector_from_update failed: {}", e))),
                }
            }
        }
    }
    let _ = Update::decode_v1(&merged.v1);
    Ok(())
}
