//! Global allocator with a fixed-address arena (DESIGN.md §3.1).
//!
//! Until `enable()` is called everything is delegated to `System`. Inside a cell every allocation
//! is served from a private mapping at a fixed virtual address, so that heap addresses — and with
//! them the iteration order of address-keyed hash sets inside yrs — are a pure function of the
//! allocation sequence, i.e. of the cell seed. The arena also gives deterministic allocation
//! accounting (peak live bytes, largest single request) and a hard cap (C10 memory oracle).

use std::alloc::{GlobalAlloc, Layout, System};
use std::sync::atomic::{AtomicBool, Ordering};

pub const BASE: usize = 0x10_0000_0000;
pub const SIZE: usize = 8usize << 30; // virtual only (MAP_NORESERVE)
const NCLASS: usize = 40;
const MIN_SHIFT: u32 = 4; // 16 bytes

extern "C" {
    fn mmap(addr: *mut u8, len: usize, prot: i32, flags: i32, fd: i32, off: i64) -> *mut u8;
}

pub struct Arena;

struct State {
    bump: usize,
    free: [usize; NCLASS],
    live: usize,
    peak: usize,
    max_req: usize,
    n_alloc: u64,
    cap_live: usize,
    cap_single: usize,
    refused: u64,
}

static ON: AtomicBool = AtomicBool::new(false);
static LOCK: AtomicBool = AtomicBool::new(false);
static mut ST: State = State {
    bump: 0,
    free: [0; NCLASS],
    live: 0,
    peak: 0,
    max_req: 0,
    n_alloc: 0,
    cap_live: usize::MAX,
    cap_single: usize::MAX,
    refused: 0,
};

#[derive(Clone, Copy, Debug, Default)]
pub struct Stats {
    pub peak: usize,
    pub live: usize,
    pub max_req: usize,
    pub n_alloc: u64,
    pub refused: u64,
}

struct Guard;
impl Guard {
    #[inline]
    fn new() -> Guard {
        while LOCK
            .compare_exchange_weak(false, true, Ordering::Acquire, Ordering::Relaxed)
            .is_err()
        {
            std::hint::spin_loop();
        }
        Guard
    }
}
impl Drop for Guard {
    #[inline]
    fn drop(&mut self) {
        LOCK.store(false, Ordering::Release);
    }
}

/// Maps the arena (once per process; children of `fork` inherit a pristine copy-on-write view
/// because the parent never allocates from it).
pub fn map() -> bool {
    // PROT_READ|PROT_WRITE, MAP_PRIVATE|MAP_ANONYMOUS|MAP_NORESERVE|MAP_FIXED_NOREPLACE
    let p = unsafe { mmap(BASE as *mut u8, SIZE, 0x1 | 0x2, 0x2 | 0x20 | 0x4000 | 0x100000, -1, 0) };
    p as usize == BASE
}

/// Switches the calling process to the arena. `salt` shifts the first allocation so that different
/// cell seeds explore different address layouts (hence different address-hash orders).
pub fn enable(salt: u64, cap_live: usize, cap_single: usize) {
    unsafe {
        let st = &mut *std::ptr::addr_of_mut!(ST);
        st.bump = BASE + 4096 + ((salt as usize) % 4096) * 4096;
        st.free = [0; NCLASS];
        st.live = 0;
        st.peak = 0;
        st.max_req = 0;
        st.n_alloc = 0;
        st.cap_live = cap_live;
        st.cap_single = cap_single;
        st.refused = 0;
    }
    ON.store(true, Ordering::SeqCst);
}

/// diagnostic switches, read from the environment once before any cell is forked (reading a set
/// variable allocates, which inside a cell would shift every later address)
pub static VERBOSE: AtomicBool = AtomicBool::new(false);
pub static FINAL: AtomicBool = AtomicBool::new(false);
pub static BT: AtomicBool = AtomicBool::new(false);
pub static ASTAT: AtomicBool = AtomicBool::new(false);

pub fn read_diag_env() {
    VERBOSE.store(std::env::var_os("YSIM_VERBOSE").is_some(), Ordering::Relaxed);
    FINAL.store(std::env::var_os("YSIM_FINAL").is_some(), Ordering::Relaxed);
    ASTAT.store(std::env::var_os("YSIM_ASTAT").is_some(), Ordering::Relaxed);
    BT.store(std::env::var_os("YSIM_BT").is_some(), Ordering::Relaxed);
}

pub fn verbose() -> bool {
    VERBOSE.load(Ordering::Relaxed)
}

/// runs a diagnostic closure without perturbing the run it describes
pub fn outside(f: impl FnOnce()) {
    // in a forked child: neither the allocator state nor std's per-thread RandomState counter (every
    // HashMap created while dumping advances it) of the run itself is touched
    extern "C" {
        fn fork() -> i32;
        fn waitpid(pid: i32, status: *mut i32, options: i32) -> i32;
        fn _exit(code: i32) -> !;
    }
    unsafe {
        let pid = fork();
        if pid == 0 {
            f();
            _exit(0);
        } else if pid > 0 {
            let mut st = 0;
            waitpid(pid, &mut st, 0);
        }
    }
}

pub fn set_caps(cap_live: usize, cap_single: usize) {
    let _g = Guard::new();
    unsafe {
        let st = &mut *std::ptr::addr_of_mut!(ST);
        st.cap_live = cap_live;
        st.cap_single = cap_single;
    }
}

/// resets peak/max accounting to the current live size (used to meter one decode call)
pub fn reset_peak() {
    let _g = Guard::new();
    unsafe {
        let st = &mut *std::ptr::addr_of_mut!(ST);
        st.peak = st.live;
        st.max_req = 0;
        st.refused = 0;
    }
}

pub fn stats() -> Stats {
    let _g = Guard::new();
    unsafe {
        let st = &*std::ptr::addr_of!(ST);
        Stats {
            peak: st.peak,
            live: st.live,
            max_req: st.max_req,
            n_alloc: st.n_alloc,
            refused: st.refused,
        }
    }
}

#[inline]
fn class_of(size: usize, align: usize) -> usize {
    let s = size.max(align).max(1 << MIN_SHIFT);
    let c = (usize::BITS - (s - 1).leading_zeros()) as usize; // ceil log2
    c - MIN_SHIFT as usize
}

#[inline]
fn class_size(c: usize) -> usize {
    1usize << (c + MIN_SHIFT as usize)
}

#[inline]
fn in_arena(p: *mut u8) -> bool {
    let a = p as usize;
    a >= BASE && a < BASE + SIZE
}

impl Arena {
    /// returns (ptr, fresh) where fresh means never handed out before (still zeroed)
    unsafe fn arena_alloc(&self, layout: Layout) -> (*mut u8, bool) {
        let _g = Guard::new();
        let st = &mut *std::ptr::addr_of_mut!(ST);
        let size = layout.size();
        if size > st.cap_single || st.live.saturating_add(size) > st.cap_live {
            st.refused += 1;
            if size > st.max_req {
                st.max_req = size;
            }
            return (std::ptr::null_mut(), false);
        }
        let c = class_of(size, layout.align());
        if c >= NCLASS {
            st.refused += 1;
            return (std::ptr::null_mut(), false);
        }
        let (p, fresh) = if layout.align() <= 4096 && st.free[c] != 0 {
            let p = st.free[c];
            st.free[c] = *(p as *const usize);
            (p, false)
        } else {
            let cs = class_size(c);
            let al = if layout.align() > 4096 { layout.align() } else { cs.min(4096) };
            let start = (st.bump + al - 1) & !(al - 1);
            if start.saturating_add(cs) > BASE + SIZE {
                st.refused += 1;
                return (std::ptr::null_mut(), false);
            }
            st.bump = start + cs;
            (start, true)
        };
        st.live += size;
        if st.live > st.peak {
            st.peak = st.live;
        }
        if size > st.max_req {
            st.max_req = size;
        }
        st.n_alloc += 1;
        (p as *mut u8, fresh)
    }

    unsafe fn arena_free(&self, p: *mut u8, layout: Layout) {
        let _g = Guard::new();
        let st = &mut *std::ptr::addr_of_mut!(ST);
        st.live = st.live.saturating_sub(layout.size());
        if layout.align() > 4096 {
            return; // leaked (never happens in practice)
        }
        let c = class_of(layout.size(), layout.align());
        *(p as *mut usize) = st.free[c];
        st.free[c] = p as usize;
    }
}

unsafe impl GlobalAlloc for Arena {
    unsafe fn alloc(&self, layout: Layout) -> *mut u8 {
        if ON.load(Ordering::Relaxed) {
            self.arena_alloc(layout).0
        } else {
            System.alloc(layout)
        }
    }

    unsafe fn alloc_zeroed(&self, layout: Layout) -> *mut u8 {
        if ON.load(Ordering::Relaxed) {
            let (p, fresh) = self.arena_alloc(layout);
            if !p.is_null() && !fresh {
                std::ptr::write_bytes(p, 0, layout.size());
            }
            p
        } else {
            System.alloc_zeroed(layout)
        }
    }

    unsafe fn dealloc(&self, p: *mut u8, layout: Layout) {
        if in_arena(p) {
            self.arena_free(p, layout)
        } else {
            System.dealloc(p, layout)
        }
    }

    unsafe fn realloc(&self, p: *mut u8, layout: Layout, new_size: usize) -> *mut u8 {
        if !in_arena(p) && !ON.load(Ordering::Relaxed) {
            return System.realloc(p, layout, new_size);
        }
        if in_arena(p) && layout.align() <= 4096 {
            let c_old = class_of(layout.size(), layout.align());
            let c_new = class_of(new_size, layout.align());
            if c_old == c_new {
                let _g = Guard::new();
                let st = &mut *std::ptr::addr_of_mut!(ST);
                if new_size > layout.size() {
                    let grow = new_size - layout.size();
                    if new_size > st.cap_single || st.live.saturating_add(grow) > st.cap_live {
                        st.refused += 1;
                        return std::ptr::null_mut();
                    }
                    st.live += grow;
                    if st.live > st.peak {
                        st.peak = st.live;
                    }
                    if new_size > st.max_req {
                        st.max_req = new_size;
                    }
                } else {
                    st.live -= layout.size() - new_size;
                }
                return p;
            }
        }
        let new_layout = Layout::from_size_align_unchecked(new_size, layout.align());
        let q = self.alloc(new_layout);
        if !q.is_null() {
            std::ptr::copy_nonoverlapping(p, q, layout.size().min(new_size));
            self.dealloc(p, layout);
        }
        q
    }
}
