#!/bin/bash
# tools/mutant_check.sh <patch.diff> <property ids...> : run quick checks against a scratch copy of
# the repository with the patch applied (never /repo itself). Prints one line per check.
PATCH=$(realpath $1); shift
MR=${MR:-/tmp/mut_repo}
if [ ! -d $MR ]; then git -C /repo worktree add -q --detach $MR HEAD || exit 2; fi
git -C $MR checkout -q --detach $(git -C /repo rev-parse HEAD) 2>/dev/null
git -C $MR checkout -q -- . ; git -C $MR apply $PATCH || { echo "patch does not apply"; exit 2; }
for ID in "$@"; do
  OUT=/tmp/mut_out_$(basename $MR)/$ID; rm -rf $OUT
  VERIF_REPO=$MR VERIF_OUT=$OUT /verif/check $ID quick ${MUT_ARGS:-} > /tmp/mut_out_$(basename $MR)_$ID.log 2>&1; RC=$?
  V=$(grep -m1 "^violation oracle" /tmp/mut_out_$(basename $MR)_$ID.log | cut -c1-260)
  echo "CHECK $ID exit=$RC $V"
done
git -C $MR checkout -q -- .
