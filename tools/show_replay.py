#!/usr/bin/env python3
"""pretty-prints a replay file: nodes, links, one event per line, expected verdict"""
import json,sys
rf=json.load(open(sys.argv[1]))
print("nodes:",json.dumps(rf['cfg']['nodes']))
print("enc:",rf['cfg']['enc'], "echo_suppress:",rf['cfg'].get('echo_suppress'))
for t in rf['trace']: print(json.dumps(t,ensure_ascii=False))
print(rf['expect']['oracle'], rf['expect']['at_eid']); print(rf['expect']['msg'])
