#!/bin/bash
# tools/mutant_confirm.sh <worktree> <mN> : re-confirm a mutation inside its own scratch worktree:
#   demo fails with the patch, unit suite passes with the patch, demo passes without it.
WT=$1; M=$2; D=$WT/MUTATIONS/$M
cd $WT || exit 2
export CARGO_NET_OFFLINE=true
git checkout -q -- yrs/src; mkdir -p yrs/tests; cp $D/demo.rs yrs/tests/${M}_demo.rs
git apply $D/patch.diff || { echo "RESULT $WT $M patch-does-not-apply"; exit 1; }
cargo test -p yrs --offline --features weak --test ${M}_demo > /tmp/confirm_$$.log 2>&1; DEMO_WITH=$?
cargo test -p yrs --lib --offline --features weak -- --skip edit_trace --skip test_medium_data_set > /tmp/confirm_unit_$$.log 2>&1; UNIT=$?
UNITLINE=$(grep "test result" /tmp/confirm_unit_$$.log | head -1)
git checkout -q -- yrs/src
cargo test -p yrs --offline --features weak --test ${M}_demo > /tmp/confirm2_$$.log 2>&1; DEMO_WITHOUT=$?
rm -f yrs/tests/${M}_demo.rs; rmdir yrs/tests 2>/dev/null
echo "RESULT $WT $M demo_with_patch_exit=$DEMO_WITH unit_exit=$UNIT ($UNITLINE) demo_without_patch_exit=$DEMO_WITHOUT"
rm -f /tmp/confirm_$$.log /tmp/confirm_unit_$$.log /tmp/confirm2_$$.log
