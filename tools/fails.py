#!/usr/bin/env python3
"""tools/fails.py <profile> <cells> : first failing cell per oracle id (one worker, VERIF_SEED=1)"""
import json,subprocess,sys
prof=sys.argv[1]; cells=sys.argv[2] if len(sys.argv)>2 else '20000'
out=subprocess.run(['/verif/target/build-main/target/release/ysim','worker',prof,'quick','1','0','1',cells,'300'],capture_output=True,text=True).stdout
rep=json.loads(out.strip().splitlines()[-1])
print(rep['failure_counts'])
seen=set()
for f in rep['failures']:
    o=f['violation']['oracle']
    if o in seen: continue
    seen.add(o)
    print('====',o,'index',f['index'],'cell_seed',f['cell_seed']); print(f['violation']['msg'][:1200])
