#!/bin/bash
# tools/seeded_regression.sh [k n] : run every kept seeded mutation (slice k of n) against the quick check of the
# property it breaks, on a scratch copy of the final tree. One line per mutation in /tmp/seeded_regress_<k>.log.
K=${1:-0}; N=${2:-1}
cd /verif
: > /tmp/seeded_regress_$K.log
i=0
for d in seeded/*/; do
  i=$((i+1)); [ $((i % N)) -eq $K ] || continue
  id=$(basename $d)
  prop=$(python3 -c "import json;print(json.load(open('$d/meta.json'))['breaks_property'])")
  patch=$d/patch.diff; [ -f $d/patch_rebased_on_final_head.diff ] && patch=$d/patch_rebased_on_final_head.diff
  r=$(MR=/tmp/mut_repo_$K tools/mutant_check.sh $patch $prop 2>&1 | tail -1 | cut -c1-200)
  echo "$id | $r" >> /tmp/seeded_regress_$K.log
done
