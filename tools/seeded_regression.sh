#!/bin/bash
# tools/seeded_regression.sh : run every kept seeded mutation against the quick check of the property it
# breaks, on a scratch copy of the final tree. One line per mutation in /tmp/seeded_regress.log.
cd /verif
: > /tmp/seeded_regress.log
for d in seeded/*/; do
  id=$(basename $d)
  prop=$(python3 -c "import json;print(json.load(open('$d/meta.json'))['breaks_property'])")
  patch=$d/patch.diff; [ -f $d/patch_rebased_on_final_head.diff ] && patch=$d/patch_rebased_on_final_head.diff
  r=$(MUT_ARGS="${MUT_ARGS:-}" tools/mutant_check.sh $patch $prop 2>&1 | tail -1 | cut -c1-200)
  echo "$id | $r" >> /tmp/seeded_regress.log
done
