#!/usr/bin/env python3
"""tools/keep_mutation.py <worktree> <mN> <seeded-id> <property> <caught-by...> : copy a confirmed mutation into /verif/seeded/<seeded-id>/"""
import sys,os,shutil,json,re
wt,m,sid,prop=sys.argv[1:5]; caught=sys.argv[5:]
src=f"{wt}/MUTATIONS/{m}"; dst=f"/verif/seeded/{sid}"
os.makedirs(dst,exist_ok=True)
shutil.copy(f"{src}/patch.diff",f"{dst}/patch.diff"); shutil.copy(f"{src}/demo.rs",f"{dst}/demo.rs")
readme=open(f"{src}/README.md").read()
shutil.copy(f"{src}/README.md",f"{dst}/README.md")
conf=[l for l in open('/tmp/confirm_all.log').read().splitlines() if f"{wt} {m} " in l]
meta={"id":sid,"breaks_property":prop,"source":"independent sub-agent given only the property text and a scratch worktree",
 "needs_to_manifest": (re.search(r"(?is)(needs?|manifest)[^\n]*\n(.{0,700})",readme).group(0)[:900] if re.search(r"(?is)(needs?|manifest)",readme) else ""),
 "confirmed":{"how":"tools/mutant_confirm.sh in the scratch worktree: demo (integration test, public API only) with the patch, unit suite (391 tests, --features weak, slow edit traces skipped) with the patch, demo without the patch","result":conf[-1] if conf else "see DESIGN.md"},
 "checks_run":"tools/mutant_check.sh patch.diff <ids> (quick tier against a scratch copy of the repository, VERIF_SEED=1)",
 "caught_by":caught}
json.dump(meta,open(f"{dst}/meta.json","w"),indent=1)
print("kept",sid)
