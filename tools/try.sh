#!/bin/bash
# tools/try.sh <profile> [cells] [extra args] — scratch batch into /tmp/vt_<profile> (does not touch /verif/evidence)
P=$1; C=${2:-30000}; shift; shift
D=/tmp/vt_$P; rm -rf $D; mkdir -p $D; cp /verif/known_findings.json $D/
/verif/target/build-main/target/release/ysim batch $P --cells $C --verif-dir $D "$@" 2>&1 | cut -c1-1500 | tail -12
python3 - <<PY
import json,glob
for f in glob.glob('$D/evidence/*.json'):
    ev=json.load(open(f)); print(ev['property_id'], 'failures:', ev['coverage']['failures_by_oracle'])
PY
