#!/usr/bin/env python3
"""tools/sample_fails.py <profile> <cells> <oracle> <max> : minimise up to <max> failing cells of one oracle
(16 workers like the batch) into /tmp/sf_<profile>/<seed>.json and print their event kinds"""
import json,subprocess,sys,os,concurrent.futures as cf
prof,cells,oracle,mx=sys.argv[1],sys.argv[2],sys.argv[3],int(sys.argv[4])
B='/verif/target/build-main/target/release/ysim'
def worker(i):
    out=subprocess.run([B,'worker',prof,os.environ.get('TIER','quick'),'1',str(i),'16',cells,'1200'],capture_output=True,text=True).stdout
    return json.loads(out.strip().splitlines()[-1])
fails=[]
with cf.ThreadPoolExecutor(16) as ex:
    for rep in ex.map(worker,range(16)):
        fails+= [f for f in rep['failures'] if f['violation']['oracle']==oracle]
fails.sort(key=lambda f:f['index'])
print(len(fails),'failures retained for',oracle)
D='/tmp/sf_'+prof; os.makedirs(D,exist_ok=True)
def mini(f):
    p='%s/%s.json'%(D,f['cell_seed'])
    r=subprocess.run([B,'triage',prof,os.environ.get('TIER','quick'),str(f['cell_seed']),p],capture_output=True,text=True)
    return p,r.stdout[-300:]
def kinds(p):
    rf=json.load(open(p)); ks=[]
    for t in rf['trace']:
        ev=t['ev']
        if 'Txn' in ev: ks.append('+'.join(list(o.keys())[0] for o in ev['Txn']['ops'])+('' if ev['Txn'].get('origin')=='user' else '@'+str(ev['Txn'].get('origin'))))
        elif 'Special' in ev: ks.append(ev['Special']['k'])
        else: ks.append(list(ev.keys())[0])
    return ks
with cf.ThreadPoolExecutor(16) as ex:
    for p,o in ex.map(mini,fails[:mx]):
        if os.path.exists(p): print(os.path.basename(p),len(kinds(p)),' | '.join(kinds(p)))
        else: print('no file',o)
