#!/bin/bash
# builds the simulator against the repository under test (default /repo), offline
set -e
cd "$(dirname "$0")"
exec ./check --build-only
